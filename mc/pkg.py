"""Helpers to pack independent cases into one analysable package and to index the stubs a run produced."""

from __future__ import annotations

import json
from dataclasses import dataclass, field
from typing import Any

from .driver import Obs
from .sds_parser import SdsDecl, SdsModule, SdsSyntaxError, parse_stub

PKG = "vpkg"


@dataclass
class Case:
    """One independent input fragment: top-level source text with names unique to the case."""

    cid: int
    src: str
    meta: Any = None
    imports: tuple[str, ...] = ()
    label: str = ""  # shape signature, used for evidence and for violation signatures


def pack(
    cases: list[Case],
    per_module: int = 250,
    prefix: str = "m",
    extra_files: dict[str, str] | None = None,
    header=None,
) -> tuple[dict[str, str], str]:
    """Render cases into vpkg/<prefix>NNNN.py modules (per_module cases each).  Deterministic in the case list.

    header(module_name) -> str is prepended to each module; the placeholder @MOD@ in case sources and headers is
    replaced by the module name (for per-module unique helper names).
    """
    files: dict[str, str] = {f"{PKG}/__init__.py": ""}
    for i in range(0, len(cases), per_module):
        chunk = cases[i : i + per_module]
        imports: list[str] = []
        for c in chunk:
            for imp in c.imports:
                if imp not in imports:
                    imports.append(imp)
        name = f"{prefix}{chunk[0].cid:06d}"
        text = "\n".join(imports) + ("\n\n\n" if imports else "") + "\n\n\n".join(c.src.rstrip("\n") for c in chunk) + "\n"
        if header is not None:
            text = header(name) + text
        files[f"{PKG}/{name}.py"] = text.replace("@MOD@", name)
    if extra_files:
        files.update(extra_files)
    return files, PKG


@dataclass
class StubIndex:
    modules: dict[str, SdsModule] = field(default_factory=dict)  # stub path -> parsed module
    errors: dict[str, SdsSyntaxError] = field(default_factory=dict)  # stub path -> syntax error
    by_name: dict[str, list[tuple[str, tuple[str, ...], SdsDecl]]] = field(default_factory=dict)  # py_name -> [(path, chain, decl)]

    def find(self, py_name: str, kind: str | None = None) -> list[tuple[str, tuple[str, ...], SdsDecl]]:
        hits = self.by_name.get(py_name, [])
        return [h for h in hits if kind is None or h[2].kind == kind]


def module_of(cases: list[Case], case: Case, per_module: int = 250, prefix: str = "m") -> str:
    """Name of the module pack() put `case` in, given the same case list."""
    i = cases.index(case)
    return f"{prefix}{cases[i - i % per_module].cid:06d}"


def index_stubs(obs: Obs) -> StubIndex:
    idx = StubIndex()
    for path, text in obs.stubs().items():
        try:
            m = parse_stub(text, path)
        except SdsSyntaxError as e:
            idx.errors[path] = e
            continue
        idx.modules[path] = m
        for chain, d in m.walk():
            idx.by_name.setdefault(d.py_name, []).append((path, chain, d))
    return idx


def api_index(obs: Obs) -> dict[str, dict[str, dict]]:
    """{'functions': {id: entry}, 'parameters': {...}, ...} from the API JSON of a run."""
    api = obs.api()
    out: dict[str, dict[str, dict]] = {}
    if api is None:
        return out
    for k, v in api.items():
        if isinstance(v, list):
            out[k] = {e["id"]: e for e in v if isinstance(e, dict) and "id" in e}
    return out


def short(obj: Any, n: int = 300) -> str:
    s = obj if isinstance(obj, str) else json.dumps(obj, default=repr)
    return s if len(s) <= n else s[:n] + "..."
