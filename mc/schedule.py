"""E3: owning the tool's environment nondeterminism (DESIGN.md 4.5).

* ChoiceSet(set): iteration order of every set the tool builds becomes a recorded choice (default = sorted order).
  It is injected as the name `set` into the tool's modules (module globals shadow builtins): no source change.
* os.scandir / os.listdir are wrapped: entries of directories below a chosen root are sorted and then permuted by the
  schedule (this reaches Path.glob in discovery, mypy's file-system cache and griffe's loader).

A schedule is {choice index -> alternative index}; alternative 0 is the default.  job_schedule() runs the real
pipeline once under a schedule and returns the observation plus the list of choice points met.
"""

from __future__ import annotations

import itertools
import math
import os
import shutil
import sys

TOOL_MODULES = [
    "safeds_stubgen.api_analyzer._api",
    "safeds_stubgen.api_analyzer._get_api",
    "safeds_stubgen.api_analyzer._ast_visitor",
    "safeds_stubgen.api_analyzer._ast_walker",
    "safeds_stubgen.api_analyzer._types",
    "safeds_stubgen.api_analyzer._mypy_helpers",
    "safeds_stubgen.stubs_generator._helper",
    "safeds_stubgen.stubs_generator._stub_string_generator",
    "safeds_stubgen.stubs_generator._generate_stubs",
    "safeds_stubgen.docstring_parsing._docstring_parser",
]


class _Ctx:
    def __init__(self) -> None:
        self.active = False
        self.schedule: dict[int, int] = {}
        self.points: list[tuple[str, int]] = []

    def choose(self, site: str, n_alternatives: int) -> int:
        idx = len(self.points)
        self.points.append((site, n_alternatives))
        alt = self.schedule.get(idx, 0)
        if alt >= n_alternatives:
            raise RuntimeError(f"schedule divergence: choice {idx} at {site} has {n_alternatives} alternatives, schedule asks for {alt}")
        return alt


CTX = _Ctx()


def n_alternatives(n: int) -> int:
    """Number of orders offered for n elements: all n! for n <= 3, else identity + n-1 rotations + reversal."""
    return math.factorial(n) if n <= 3 else n + 1


def permute(items: list, alt: int) -> list:
    n = len(items)
    if alt == 0:
        return items
    if n <= 3:
        return list(next(itertools.islice(itertools.permutations(items), alt, None)))
    if alt < n:
        return items[alt:] + items[:alt]
    return items[::-1]


def _key(x):
    ident = getattr(x, "id", None)
    return (type(x).__name__, repr(ident) if ident is not None else repr(x))


class ChoiceSet(set):
    """A set whose iteration order is decided by the active schedule (sorted order by default)."""

    def __iter__(self):
        items = sorted(set.__iter__(self), key=_key)
        if CTX.active and len(items) >= 2:
            f = sys._getframe(1)
            site = f"{os.path.basename(f.f_code.co_filename)}:{f.f_code.co_name}:{f.f_lineno}"
            items = permute(items, CTX.choose("set@" + site, n_alternatives(len(items))))
        return iter(items)

    def pop(self):
        # set.pop removes an arbitrary element: an ordering choice as well
        items = list(iter(self))
        self.discard(items[0])
        return items[0]

    def __reduce__(self):
        return (ChoiceSet, (list(set.__iter__(self)),))


class _ScanDir:
    def __init__(self, entries):
        self._entries = entries

    def __iter__(self):
        return iter(self._entries)

    def __next__(self):
        raise StopIteration

    def __enter__(self):
        return self

    def __exit__(self, *a):
        return False

    def close(self):
        pass


_REAL_SCANDIR, _REAL_LISTDIR = os.scandir, os.listdir
_ROOT: str | None = None


def _controlled(path) -> bool:
    try:
        p = os.path.abspath(os.fspath(path)) if path is not None else os.getcwd()
    except TypeError:
        return False
    return _ROOT is not None and (p == _ROOT or p.startswith(_ROOT + os.sep))


def _scandir(path="."):
    if not CTX.active or not _controlled(path):
        return _REAL_SCANDIR(path)
    with _REAL_SCANDIR(path) as it:
        entries = sorted(it, key=lambda e: e.name)
    if len(entries) >= 2:
        entries = permute(entries, CTX.choose("dir@" + os.path.relpath(os.fspath(path), _ROOT), n_alternatives(len(entries))))
    return _ScanDir(entries)


def _listdir(path="."):
    if not CTX.active or not _controlled(path):
        return _REAL_LISTDIR(path)
    names = sorted(_REAL_LISTDIR(path))
    if len(names) >= 2:
        names = permute(names, CTX.choose("dir@" + os.path.relpath(os.fspath(path), _ROOT), n_alternatives(len(names))))
    return names


def install(root: str) -> None:
    global _ROOT
    import importlib

    _ROOT = os.path.abspath(root)
    for name in TOOL_MODULES:
        mod = importlib.import_module(name)
        mod.set = ChoiceSet  # type: ignore[attr-defined]
    os.scandir, os.listdir = _scandir, _listdir


def uninstall() -> None:
    global _ROOT
    import importlib

    _ROOT = None
    os.scandir, os.listdir = _REAL_SCANDIR, _REAL_LISTDIR
    for name in TOOL_MODULES:
        mod = importlib.import_module(name)
        if "set" in mod.__dict__:
            del mod.__dict__["set"]


def uncontrolled_set_constructions() -> list[str]:
    """Static inventory: set comprehensions / set displays in the tool's sources that ChoiceSet cannot intercept and whose
    elements are iterated (reported in evidence so that a NEW uncontrolled set is noticed)."""
    import ast
    import importlib

    out = []
    for name in TOOL_MODULES:
        mod = importlib.import_module(name)
        src = open(mod.__file__, encoding="utf-8").read()
        for node in ast.walk(ast.parse(src)):
            if isinstance(node, ast.SetComp):
                out.append(f"{os.path.basename(mod.__file__)}:{node.lineno}:set-comprehension")
    return sorted(out)


def job_schedule(files: dict[str, str], src_rel: str, opts, schedule: dict[int, int]):
    """Pool job: run the pipeline once under `schedule`; returns (Obs, choice points, divergence message or None)."""
    from .driver import fresh_dir, run_inproc, write_tree

    d = fresh_dir("s")
    try:
        write_tree(d / "in", files)
        install(str(d / "in"))
        CTX.schedule = dict(schedule)
        CTX.points = []
        CTX.active = True
        try:
            obs = run_inproc(d / "in" / src_rel, d / "out", opts)
        finally:
            CTX.active = False
            uninstall()
        return obs, list(CTX.points), None
    finally:
        shutil.rmtree(d, ignore_errors=True)
