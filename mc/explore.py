"""Exploration plumbing shared by all checks: worker pool, packed runs with bisection on crashes (DESIGN.md 4.4).

A *unit* is an independent piece of input (one case module, one case sub-package).  A *group* is a list of units that
is rendered into ONE package and analysed by ONE run of the real tool.  If a group run crashes, the group is bisected
until every culprit unit is isolated (run alone) and all other units have been judged in a run that completed.
"""

from __future__ import annotations

import multiprocessing as mp
import os
from collections.abc import Callable, Iterable
from concurrent.futures import FIRST_COMPLETED, Future, ProcessPoolExecutor, wait
from concurrent.futures.process import BrokenProcessPool
from typing import Any

from .driver import Obs, Opts, job_run_files

NWORKERS = int(os.environ.get("VERIF_WORKERS", str(min(16, os.cpu_count() or 4))))


def _init_worker() -> None:
    import sys

    os.environ["MYPY_CACHE_DIR"] = "/dev/null"
    os.environ["PYTHONDONTWRITEBYTECODE"] = "1"
    sys.dont_write_bytecode = True
    from .driver import REPO_SRC

    if REPO_SRC not in sys.path:
        sys.path.insert(0, REPO_SRC)
    # heavy imports once per worker
    import mypy.build  # noqa: F401

    # a worker must not outlive its check: if the main process is killed (timeout, kill) the workers would stay behind as
    # orphans, each holding the type checker's memory
    import threading
    import time

    parent = os.getppid()

    def _exit_with_parent() -> None:
        while True:
            time.sleep(5)
            if os.getppid() != parent:
                os._exit(0)

    threading.Thread(target=_exit_with_parent, daemon=True).start()


_POOL: ProcessPoolExecutor | None = None
_SUBMITTED = 0
# mypy builds accumulate memory in a long-lived worker, so the pool is replaced after this many jobs.  (The executor's own
# max_tasks_per_child is not used: on CPython 3.12.1 it can deadlock when workers exit while jobs are queued.)
RECYCLE_AFTER = NWORKERS * int(os.environ.get("VERIF_JOBS_PER_WORKER", "100"))
MAX_RETRIES = 2


def pool() -> ProcessPoolExecutor:
    global _POOL
    if _POOL is None:
        _POOL = ProcessPoolExecutor(max_workers=NWORKERS, mp_context=mp.get_context("spawn"), initializer=_init_worker)
    return _POOL


def _submit(fn: Callable, *args: Any) -> Future:
    global _SUBMITTED
    _SUBMITTED += 1
    return pool().submit(fn, *args)


def _need_recycle() -> bool:
    return _SUBMITTED >= RECYCLE_AFTER


def _recycle(wait_: bool = True) -> None:
    """Replace the pool (only called when no job is in flight, or after the pool broke)."""
    global _POOL, _SUBMITTED
    if _POOL is not None:
        _POOL.shutdown(wait=wait_, cancel_futures=True)
        _POOL = None
    _SUBMITTED = 0


def _worker_died_obs() -> Obs:
    return Obs(outcome="crash", exc_type="WorkerDied", exc_msg="the worker process running this job died repeatedly", exc_frame="<worker>")


def shutdown_pool() -> None:
    """End of a check: all jobs are done, so waiting is short - and it keeps the executor's exit hook from finding a closed pipe."""
    global _POOL
    if _POOL is not None:
        try:
            _POOL.shutdown(wait=True, cancel_futures=True)
        except Exception:  # noqa: BLE001  (a broken pool has nothing left to wait for)
            pass
        _POOL = None


def run_jobs(jobs: Iterable[tuple[Any, Callable, tuple]], on_result: Callable[[Any, Any], None], max_inflight: int | None = None) -> None:
    """Run (tag, fn, args) jobs on the pool; call on_result(tag, value) in the parent as they complete."""
    max_inflight = base_inflight = max_inflight or NWORKERS * 3
    pending: dict[Future, tuple[Any, Callable, tuple, int]] = {}
    retry: list[tuple[Any, Callable, tuple, int]] = []
    it = iter(jobs)
    exhausted = False
    submit_failures = 0
    while True:
        if not retry and not any(p[3] for p in pending.values()):
            max_inflight = base_inflight
        while not _need_recycle() and len(pending) < max_inflight:
            if retry:
                tag, fn, args, n = retry.pop()
            elif exhausted:
                break
            else:
                try:
                    tag, fn, args = next(it)
                    n = 0
                except StopIteration:
                    exhausted = True
                    continue
            try:
                pending[_submit(fn, *args)] = (tag, fn, args, n)
            except BrokenProcessPool:
                # a worker died (e.g. out of memory) while nothing was being collected: everything in flight is lost with the
                # pool; run it again on a fresh pool with fewer jobs in flight
                retry.append((tag, fn, args, n))
                for f in list(pending):
                    retry.append(pending.pop(f))
                _recycle(wait_=False)
                submit_failures += 1
                if submit_failures > 20:
                    raise
                max_inflight = max(1, NWORKERS // 2)
        if not pending:
            if _need_recycle():
                _recycle()
                continue
            break
        done, _ = wait(list(pending), return_when=FIRST_COMPLETED)
        broken = False
        for f in done:
            tag, fn, args, n = pending.pop(f)
            try:
                value = f.result()
            except BrokenProcessPool:
                broken = True
                if n >= MAX_RETRIES:
                    value = _worker_died_obs()
                else:
                    retry.append((tag, fn, args, n + 1))
                    continue
            on_result(tag, value)
        if broken:
            # every other in-flight job failed with the pool; run them again on a fresh one (serially if they keep failing)
            for f in list(pending):
                tag, fn, args, n = pending.pop(f)
                retry.append((tag, fn, args, n))
            _recycle(wait_=False)
            if any(n >= 1 for *_x, n in retry):
                max_inflight = 1  # isolate the job that kills its worker


def run_packed(
    groups: Iterable[tuple[list[Any], Opts]],
    build: Callable[[list[Any]], tuple[dict[str, str], str]],
    on_group: Callable[[list[Any], Opts, Obs, dict[str, str]], None],
    stats: dict[str, int] | None = None,
) -> None:
    """Run every group; bisect crashing groups.

    build(units) -> (files, src_rel).  on_group(units, opts, obs, files) is called for every group run that did not
    crash, and for every single-unit group whatever its outcome.
    """
    stats = stats if stats is not None else {}
    files_of: dict[int, dict[str, str]] = {}

    def jobs():  # noqa: ANN202
        k = 0
        it = iter(groups)
        while True:
            if queue:
                units, opts = queue.pop()
            else:
                try:
                    units, opts = next(it)
                except StopIteration:
                    if queue:
                        continue
                    return
            files, src_rel = build(units)
            k += 1
            files_of[k] = files
            stats["tool_runs"] = stats.get("tool_runs", 0) + 1
            yield (k, units, opts), job_run_files, (files, src_rel, opts)

    queue: list[tuple[list[Any], Opts]] = []

    def on(tag, obs: Obs) -> None:  # noqa: ANN001
        k, units, opts = tag
        files = files_of.pop(k)
        if obs.outcome in ("crash", "timeout", "outside_domain") and len(units) > 1:
            stats["bisections"] = stats.get("bisections", 0) + 1
            mid = len(units) // 2
            queue.append((units[:mid], opts))
            queue.append((units[mid:], opts))
        else:
            on_group(units, opts, obs, files)

    # bisection adds work while the generator may already be exhausted, so loop until nothing is left
    while True:
        run_jobs(jobs(), on, max_inflight=NWORKERS * 2)
        if not queue:
            break
        groups = []
