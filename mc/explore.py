"""Exploration plumbing shared by all checks: worker pool, packed runs with bisection on crashes (DESIGN.md 4.4).

A *unit* is an independent piece of input (one case module, one case sub-package).  A *group* is a list of units that
is rendered into ONE package and analysed by ONE run of the real tool.  If a group run crashes, the group is bisected
until every culprit unit is isolated (run alone) and all other units have been judged in a run that completed.
"""

from __future__ import annotations

import multiprocessing as mp
import os
from collections.abc import Callable, Iterable
from concurrent.futures import FIRST_COMPLETED, Future, ProcessPoolExecutor, wait
from typing import Any

from .driver import Obs, Opts, job_run_files

NWORKERS = int(os.environ.get("VERIF_WORKERS", str(min(16, os.cpu_count() or 4))))


def _init_worker() -> None:
    import sys

    os.environ["MYPY_CACHE_DIR"] = "/dev/null"
    os.environ["PYTHONDONTWRITEBYTECODE"] = "1"
    sys.dont_write_bytecode = True
    if "/repo/src" not in sys.path:
        sys.path.insert(0, "/repo/src")
    # heavy imports once per worker
    import mypy.build  # noqa: F401


_POOL: ProcessPoolExecutor | None = None


def pool() -> ProcessPoolExecutor:
    global _POOL
    if _POOL is None:
        # workers are recycled after 120 jobs: mypy builds accumulate memory in a long-lived process
        _POOL = ProcessPoolExecutor(max_workers=NWORKERS, mp_context=mp.get_context("spawn"), initializer=_init_worker, max_tasks_per_child=120)
    return _POOL


def shutdown_pool() -> None:
    global _POOL
    if _POOL is not None:
        _POOL.shutdown(wait=False, cancel_futures=True)
        _POOL = None


def run_jobs(jobs: Iterable[tuple[Any, Callable, tuple]], on_result: Callable[[Any, Any], None], max_inflight: int | None = None) -> None:
    """Run (tag, fn, args) jobs on the pool; call on_result(tag, value) in the parent as they complete."""
    max_inflight = max_inflight or NWORKERS * 3
    ex = pool()
    pending: dict[Future, Any] = {}
    it = iter(jobs)
    exhausted = False
    while True:
        while not exhausted and len(pending) < max_inflight:
            try:
                tag, fn, args = next(it)
            except StopIteration:
                exhausted = True
                break
            pending[ex.submit(fn, *args)] = tag
        if not pending:
            break
        done, _ = wait(list(pending), return_when=FIRST_COMPLETED)
        for f in done:
            tag = pending.pop(f)
            on_result(tag, f.result())


def run_packed(
    groups: Iterable[tuple[list[Any], Opts]],
    build: Callable[[list[Any]], tuple[dict[str, str], str]],
    on_group: Callable[[list[Any], Opts, Obs, dict[str, str]], None],
    stats: dict[str, int] | None = None,
) -> None:
    """Run every group; bisect crashing groups.

    build(units) -> (files, src_rel).  on_group(units, opts, obs, files) is called for every group run that did not
    crash, and for every single-unit group whatever its outcome.
    """
    stats = stats if stats is not None else {}
    ex = pool()
    pending: dict[Future, tuple[list[Any], Opts, dict[str, str]]] = {}
    queue: list[tuple[list[Any], Opts]] = []
    it = iter(groups)
    exhausted = False

    def submit(units: list[Any], opts: Opts) -> None:
        files, src_rel = build(units)
        pending[ex.submit(job_run_files, files, src_rel, opts)] = (units, opts, files)
        stats["tool_runs"] = stats.get("tool_runs", 0) + 1

    while True:
        while len(pending) < NWORKERS * 2:
            if queue:
                submit(*queue.pop())
                continue
            if exhausted:
                break
            try:
                g = next(it)
            except StopIteration:
                exhausted = True
                break
            submit(*g)
        if not pending:
            break
        done, _ = wait(list(pending), return_when=FIRST_COMPLETED)
        for f in done:
            units, opts, files = pending.pop(f)
            obs: Obs = f.result()
            if obs.outcome in ("crash", "timeout", "outside_domain") and len(units) > 1:
                stats["bisections"] = stats.get("bisections", 0) + 1
                mid = len(units) // 2
                queue.append((units[:mid], opts))
                queue.append((units[mid:], opts))
            else:
                on_group(units, opts, obs, files)
