"""./check <property> [--tier quick|thorough] [--replay DIR]"""

from __future__ import annotations

import argparse
import importlib
import subprocess
import sys
import traceback

from .report import Report, tier_and_seed


def main() -> int:
    ap = argparse.ArgumentParser()
    ap.add_argument("prop")
    ap.add_argument("--tier", default=None)
    ap.add_argument("--replay", default=None)
    args = ap.parse_args()
    prop = args.prop.upper()
    if args.replay:
        return subprocess.call(["/venv/bin/python", f"{args.replay.rstrip('/')}/replay.py"])  # noqa: S603
    tier, seed = tier_and_seed(args.tier)
    try:
        mod = importlib.import_module(f"mc.checks.{prop.lower()}")
    except ModuleNotFoundError:
        print(f"no check for {prop}", file=sys.stderr)
        return 2
    rep = Report(prop, tier, seed)
    try:
        mod.run(rep, tier, seed)
    except Exception:  # noqa: BLE001
        # a harness error is not a verdict about the repository: report it loudly, no VIOLATION line
        traceback.print_exc()
        print(f"HARNESS-ERROR property={prop}", file=sys.stderr)
        return 3
    finally:
        from .explore import shutdown_pool

        shutdown_pool()
    return rep.finish()


if __name__ == "__main__":
    sys.exit(main())
