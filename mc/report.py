"""Violation bookkeeping, known-findings matching, replay artefacts and evidence files (DESIGN.md 4.6, 4.7, 5)."""

from __future__ import annotations

import fnmatch
import hashlib
import json
import os
import shutil
import sys
import time
from collections import Counter
from pathlib import Path
from typing import Any

VERIF = Path(__file__).resolve().parent.parent
FINDINGS_FILE = VERIF / "known_findings.json"
_OUT = Path(os.environ["VERIF_OUT_DIR"]) if os.environ.get("VERIF_OUT_DIR") else VERIF  # development aid, see driver.REPO_SRC
REPLAYS = _OUT / "replays"
EVIDENCE = _OUT / "evidence"

_REPLAY_PY = '''#!/venv/bin/python
"""Replay of one violation without the explorer: re-runs the real tool on pkg/ and shows what the oracle saw.

usage: /venv/bin/python replay.py        (exit 1 if the recorded observation reproduces, 0 if it no longer does)
"""
import json, os, subprocess, sys, tempfile, shutil, pathlib
here = pathlib.Path(__file__).resolve().parent
case = json.load(open(here / "case.json"))
print("property :", case["property"]); print("clause   :", case["clause"]); print("signature:", case["sig"])
print("detail   :", json.dumps(case["detail"], indent=1)[:4000])
if not (here / "pkg").exists():
    print("(no package input: see case.json for the operation sequence; re-run with ./check %s --replay %s)" % (case["property"], here)); sys.exit(1)
tmp = pathlib.Path(tempfile.mkdtemp(prefix="replay-", dir="/dev/shm" if os.path.isdir("/dev/shm") else None))
try:
    shutil.copytree(here / "pkg", tmp / "in")
    env = dict(os.environ, PYTHONPATH=os.environ.get("VERIF_REPO_SRC", "/repo/src"), PYTHONDONTWRITEBYTECODE="1", MYPY_CACHE_DIR="/dev/null")
    argv = ["/venv/bin/python", "-c", "import sys\\nfrom safeds_stubgen.main import main\\nsys.argv=['x']+sys.argv[1:]\\nmain()",
            "-s", str(tmp / "in" / case["src_rel"]), "-o", str(tmp / "out"), *case["argv"]]
    p = subprocess.run(argv, env=env, capture_output=True, text=True, cwd=tmp)
    print("exit status:", p.returncode); print(p.stderr[-2000:])
    got = {}
    for f in sorted((tmp / "out").rglob("*")):
        if f.is_file(): got[str(f.relative_to(tmp / "out"))] = f.read_text()
    want = {}
    if (here / "observed").exists():
        for f in sorted((here / "observed").rglob("*")):
            if f.is_file(): want[str(f.relative_to(here / "observed"))] = f.read_text()
    same = got == want and (p.returncode != 0) == (case["outcome"] != "completed")
    for k in sorted(got):
        if k.endswith(".sdsstub"): print("-----", k); print(got[k])
    print("REPRODUCED" if same else "NOT REPRODUCED (output differs from the recorded observation)")
    sys.exit(1 if same else 0)
finally:
    shutil.rmtree(tmp, ignore_errors=True)
'''


def load_findings(prop: str) -> list[dict]:
    if not FINDINGS_FILE.exists():
        return []
    data = json.loads(FINDINGS_FILE.read_text())
    return [f for f in data.get("findings", []) if f["property"] == prop]


class Report:
    """One per check run.  Counts cases, collects violations, writes evidence, decides the exit status."""

    def __init__(self, prop: str, tier: str, seed: int, level: str = "model_checking") -> None:
        self.prop = prop
        self.tier = tier
        self.seed = seed
        self.level = level
        self.t0 = time.time()
        self.evaluations = 0
        self.distinct: set[str] = set()
        self.samples: list[Any] = []
        self.clause_pass: Counter[str] = Counter()
        self.clause_fail: Counter[str] = Counter()
        self.violations: dict[str, list[dict]] = {}  # sig -> occurrences (unknown sigs)
        self.known_seen: dict[str, int] = Counter()  # finding id -> count
        self.known = load_findings(prop)
        self.known_sigs: dict[tuple[str, str], int] = Counter()  # triage aid (VERIF_DUMP_KNOWN=1)
        self.extra: dict[str, Any] = {}
        self.assumptions: list[str] = []
        self.rule = ""
        self.exhaustive = True
        self.harness_divergences: list[dict] = []
        self.outside_domain = 0
        self.states = 0
        self.transitions = 0
        self.traces_validated = 0
        self._printed = 0

    # -- counting
    def case(self, shape: str, nontrivial: bool = True, sample: Any = None) -> None:
        self.evaluations += 1
        if nontrivial:
            self.distinct.add(hashlib.sha1(shape.encode()).hexdigest()[:16] if len(shape) > 40 else shape)
        if sample is not None and len(self.samples) < 6:
            self.samples.append(sample)

    def ok(self, clause: str, n: int = 1) -> None:
        self.clause_pass[clause] += n

    # -- violations
    def match_known(self, sig: str) -> dict | None:
        for f in self.known:
            pats = f["sig"] if isinstance(f["sig"], list) else [f["sig"]]
            if any(sig == p or fnmatch.fnmatchcase(sig, p) for p in pats):
                return f
        return None

    def violation(self, clause: str, sig: str, detail: dict, files: dict[str, str] | None = None, src_rel: str = "", opts=None, obs=None) -> bool:
        """Record one oracle failure.  Returns True if it is an unlisted violation (not a known finding)."""
        self.clause_fail[clause] += 1
        f = self.match_known(sig)
        if f is not None:
            self.known_seen[f["id"]] += 1
            if os.environ.get("VERIF_DUMP_KNOWN"):
                self.known_sigs[(f["id"], sig)] += 1
            return False
        occ = self.violations.setdefault(sig, [])
        if len(occ) < 3:
            occ.append({"clause": clause, "detail": detail, "files": files, "src_rel": src_rel, "opts": opts, "obs": obs})
        else:
            occ.append(None)  # count only
        return True

    def harness_divergence(self, info: dict) -> None:
        if len(self.harness_divergences) < 20:
            self.harness_divergences.append(info)

    # -- artefacts
    def _write_replay(self, sig: str, occ: dict) -> Path:
        h = hashlib.sha1(sig.encode()).hexdigest()[:12]
        d = REPLAYS / self.prop / h
        if d.exists():
            shutil.rmtree(d)
        d.mkdir(parents=True)
        opts = occ.get("opts")
        obs = occ.get("obs")
        case = {
            "property": self.prop,
            "clause": occ["clause"],
            "sig": sig,
            "detail": occ["detail"],
            "src_rel": occ.get("src_rel") or "",
            "argv": opts.argv() if opts is not None else [],
            "outcome": obs.outcome if obs is not None else "completed",
            "exception": (obs.exc_type + ": " + obs.exc_msg + " @ " + obs.exc_frame) if obs is not None and obs.exc_type else "",
        }
        (d / "case.json").write_text(json.dumps(case, indent=1, default=repr))
        if occ.get("files"):
            for rel, text in occ["files"].items():
                p = d / "pkg" / rel
                p.parent.mkdir(parents=True, exist_ok=True)
                p.write_text(text, encoding="utf-8")
        if obs is not None:
            for rel, text in obs.files.items():
                p = d / "observed" / rel
                p.parent.mkdir(parents=True, exist_ok=True)
                p.write_text(text, encoding="utf-8")
        (d / "replay.py").write_text(_REPLAY_PY)
        return d

    # -- finish
    def finish(self) -> int:
        wall = time.time() - self.t0
        for f in self.known:
            if self.known_seen.get(f["id"]):
                print(f"KNOWN-FINDING: property={self.prop} {f['id']}: {f['what']} (seen {self.known_seen[f['id']]}x)")
        for (fid, sig), n in sorted(self.known_sigs.items()):
            print(f"KNOWNSIG {n:6d} {fid}  {sig}")
        nviol = 0
        replay_paths = []
        if os.environ.get("VERIF_DUMP_SIGS"):
            # triage aid: signatures aggregated on the part before '|', one example each
            agg: dict[str, list] = {}
            for sig, occs in sorted(self.violations.items()):
                a = agg.setdefault(sig.split("|")[0], [0, sig, occs[0]])
                a[0] += len(occs)
            for key, (n, sig, occ) in sorted(agg.items()):
                print(f"SIG {n:6d} {key}  e.g. " + json.dumps(occ["detail"], default=repr)[: int(os.environ.get("VERIF_DUMP_SIGS"))])
            self.violations = {}
        for sig, occs in self.violations.items():
            nviol += len(occs)
            d = self._write_replay(sig, occs[0])
            replay_paths.append(str(d))
            if self._printed < 25:
                print(f"VIOLATION property={self.prop} replay={d}")
                print(f"  clause={occs[0]['clause']} sig={sig} occurrences={len(occs)}")
                print("  detail=" + json.dumps(occs[0]["detail"], default=repr)[:600])
                self._printed += 1
        if len(self.violations) > 25:
            print(f"  ... {len(self.violations) - 25} further violation signatures (replays written)")
        cov: dict[str, Any] = {
            "evaluations": self.evaluations,
            "distinct_nontrivial": len(self.distinct),
            "rule": self.rule,
            "samples": self.samples[:6] or ["(none)"],
            "exhaustive": self.exhaustive,
            "clause_pass": dict(self.clause_pass),
            "clause_fail": dict(self.clause_fail),
            "known_findings_seen": dict(self.known_seen),
            "violation_signatures": list(self.violations)[:50],
            "outside_domain": self.outside_domain,
            "harness_divergences": self.harness_divergences,
        }
        if self.states:
            cov["states"] = self.states
            cov["transitions"] = self.transitions
            cov["traces_validated_against_impl"] = self.traces_validated
        cov.update(self.extra)
        ev = {
            "property_id": self.prop,
            "tier": self.tier,
            "seed": self.seed,
            "level": self.level,
            "coverage": cov,
            "assumptions": self.assumptions,
            "wall_s": round(wall, 2),
            "violations": nviol,
        }
        EVIDENCE.mkdir(parents=True, exist_ok=True)
        (EVIDENCE / f"{self.prop}.json").write_text(json.dumps(ev, indent=1, default=repr))
        print(
            f"[{self.prop}] tier={self.tier} evaluations={self.evaluations} distinct_nontrivial={len(self.distinct)} "
            f"clauses_pass={sum(self.clause_pass.values())} known_finding_hits={sum(self.known_seen.values())} "
            f"violations={nviol} wall={wall:.1f}s",
        )
        sys.stdout.flush()
        return 1 if nviol else 0


def tier_and_seed(argv_tier: str | None) -> tuple[str, int]:
    tier = argv_tier or os.environ.get("VERIF_TIER") or "quick"
    if tier not in ("quick", "thorough"):
        tier = "quick"
    try:
        seed = int(os.environ.get("VERIF_SEED", "0"))
    except ValueError:
        seed = 0
    return tier, seed
