"""Independent recogniser for the stub subset of the Safe-DS grammar (DESIGN.md 4.2).

Hand-written lexer + recursive-descent parser.  It does not import safeds_stubgen.  It follows the Safe-DS
grammar where that is more liberal than what the generator emits (any annotation call, any parent type list, general
expressions as default values), so valid output is never rejected; it fails loudly with a position on the first
token it cannot place.

Public API:  parse_stub(text, filename="") -> SdsModule   (raises SdsSyntaxError)
"""

from __future__ import annotations

import re
from dataclasses import dataclass, field

KEYWORDS = frozenset(
    {
        "and", "annotation", "as", "attr", "class", "const", "enum", "false", "from", "fun", "import", "in",
        "internal", "literal", "not", "null", "or", "out", "package", "pipeline", "private", "schema", "static",
        "segment", "sub", "this", "true", "union", "unknown", "val", "where", "yield",
    },
)  # fmt: skip  (the 32 reserved words; "_" is the 33rd entry of the generator's table: the wildcard token)


class SdsSyntaxError(Exception):
    def __init__(self, clause: str, msg: str, line: int, col: int, filename: str = ""):
        super().__init__(f"{filename}:{line}:{col}: [{clause}] {msg}")
        self.clause = clause
        self.msg = msg
        self.line = line
        self.col = col
        self.filename = filename


# ---------------------------------------------------------------------------------------------------------- lexer


@dataclass
class Tok:
    kind: str  # ID, KW, INT, FLOAT, STRING, P (punctuation), EOF
    text: str  # identifier without back-quotes / raw number text / decoded string / punctuation
    line: int
    col: int
    quoted: bool = False  # ID written in back-quotes
    comments: list[tuple[str, str, int]] = field(default_factory=list)  # (kind doc|ml|sl, text, line) before the token
    raw: str = ""


_ID_RE = re.compile(r"[_a-zA-Z][_a-zA-Z0-9]*")
_FLOAT_RE = re.compile(r"[0-9]+\.[0-9]+([eE][+-]?[0-9]+)?|[0-9]+[eE][+-]?[0-9]+")
_INT_RE = re.compile(r"[0-9]+")
_PUNCT3 = ("?.", "->", "==", "!=", "<=", ">=", "?:", "=>")
_PUNCT1 = "@(){}[]<>,.:=?-+*/%"


def lex(text: str, filename: str = "") -> list[Tok]:
    toks: list[Tok] = []
    pending: list[tuple[str, str, int]] = []
    i, n = 0, len(text)
    line, bol = 1, 0

    def err(clause: str, msg: str, pos: int) -> SdsSyntaxError:
        return SdsSyntaxError(clause, msg, line, pos - bol + 1, filename)

    while i < n:
        c = text[i]
        if c == "\n":
            line += 1
            i += 1
            bol = i
            continue
        if c in " \t\r":
            i += 1
            continue
        if text.startswith("//", i):
            j = text.find("\n", i)
            if j < 0:
                j = n
            pending.append(("sl", text[i:j], line))
            i = j
            continue
        if text.startswith("/*", i):
            j = text.find("*/", i + 2)
            if j < 0:
                raise err("comment-closed", "unterminated comment", i)
            body = text[i : j + 2]
            kind = "doc" if body.startswith("/**") and len(body) > 4 else "ml"
            pending.append((kind, body, line))
            nl = body.count("\n")
            if nl:
                line += nl
                bol = i + body.rfind("\n") + 1
            i = j + 2
            continue
        if c == '"':
            j = i + 1
            buf = []
            while True:
                if j >= n:
                    raise err("string-closed", "unterminated string literal", i)
                d = text[j]
                if d == "\\":
                    if j + 1 >= n:
                        raise err("string-closed", "unterminated string literal", i)
                    e = text[j + 1]
                    buf.append({"n": "\n", "t": "\t", "r": "\r", "b": "\b", "f": "\f", "v": "\v", "0": "\0"}.get(e, e))
                    j += 2
                    continue
                if d == '"':
                    break
                if d == "{" and j + 1 < n and text[j + 1] == "{":
                    raise err("string-template", "'{{' inside a string literal opens a template expression", j)
                if d == "\n":
                    # the Safe-DS STRING terminal admits line breaks; keep position bookkeeping right
                    line += 1
                    bol = j + 1
                buf.append(d)
                j += 1
            toks.append(Tok("STRING", "".join(buf), line, i - bol + 1, comments=pending, raw=text[i : j + 1]))
            pending = []
            i = j + 1
            continue
        if c == "`":
            m = _ID_RE.match(text, i + 1)
            if not m or m.end() >= n or text[m.end()] != "`":
                raise err("identifier", "malformed back-quoted identifier", i)
            toks.append(Tok("ID", m.group(0), line, i - bol + 1, quoted=True, comments=pending, raw=text[i : m.end() + 1]))
            pending = []
            i = m.end() + 1
            continue
        m = _ID_RE.match(text, i)
        if m:
            word = m.group(0)
            # An identifier must not run into a non-ASCII "letter" (Python identifiers may contain them).
            if m.end() < n and (text[m.end()].isalnum() or ord(text[m.end()]) > 127):
                raise err("identifier", f"illegal character {text[m.end()]!r} in identifier", m.end())
            kind = "KW" if (word in KEYWORDS or word == "_") else "ID"
            toks.append(Tok(kind, word, line, i - bol + 1, comments=pending, raw=word))
            pending = []
            i = m.end()
            continue
        m = _FLOAT_RE.match(text, i) or _INT_RE.match(text, i)
        if m:
            word = m.group(0)
            if m.end() < n and (text[m.end()].isalnum() or text[m.end()] == "_" or ord(text[m.end()]) > 127):
                raise err("identifier", f"token {word + text[m.end()]!r} is neither a number nor an identifier", i)
            kind = "FLOAT" if ("." in word or "e" in word or "E" in word) else "INT"
            toks.append(Tok(kind, word, line, i - bol + 1, comments=pending, raw=word))
            pending = []
            i = m.end()
            continue
        two = text[i : i + 2]
        if two in _PUNCT3:
            toks.append(Tok("P", two, line, i - bol + 1, comments=pending, raw=two))
            pending = []
            i += 2
            continue
        if c in _PUNCT1:
            toks.append(Tok("P", c, line, i - bol + 1, comments=pending, raw=c))
            pending = []
            i += 1
            continue
        if c.isalpha() or c.isdigit():
            raise err("identifier", f"illegal character {c!r} in identifier position", i)
        raise err("stray-character", f"stray character {c!r}", i)
    toks.append(Tok("EOF", "", line, 1, comments=pending))
    return toks


# ------------------------------------------------------------------------------------------------------------ AST


@dataclass
class SdsType:
    kind: str  # named | union | literal | callable | unknown
    name: str = ""  # named: dotted name as written (back-quotes removed)
    args: list[SdsType] = field(default_factory=list)  # named: type arguments; union: members
    nullable: bool = False
    literals: list[tuple] = field(default_factory=list)  # literal: list of expression tuples
    params: list[SdsParam] = field(default_factory=list)  # callable
    results: list[SdsResult] = field(default_factory=list)  # callable

    def render(self) -> str:
        if self.kind == "named":
            s = self.name
            if self.args:
                s += "<" + ", ".join(a.render() for a in self.args) + ">"
        elif self.kind == "union":
            s = "union<" + ", ".join(a.render() for a in self.args) + ">"
        elif self.kind == "literal":
            s = "literal<" + ", ".join(render_expr(e) for e in self.literals) + ">"
        elif self.kind == "callable":
            s = (
                "("
                + ", ".join(f"{p.name}: {p.type.render() if p.type else '?'}" for p in self.params)
                + ") -> ("
                + ", ".join(f"{r.name}: {r.type.render() if r.type else '?'}" for r in self.results)
                + ")"
            )
        else:
            s = "unknown"
        return s + ("?" if self.nullable else "")


@dataclass
class SdsParam:
    name: str
    quoted: bool
    py_name: str
    type: SdsType | None
    default: tuple | None  # expression tuple
    annotations: list[tuple[str, list]] = field(default_factory=list)
    line: int = 0


@dataclass
class SdsResult:
    name: str
    quoted: bool
    py_name: str
    type: SdsType | None
    line: int = 0


@dataclass
class SdsTypeParam:
    name: str
    quoted: bool
    variance: str  # "", "in", "out"
    bound: SdsType | None
    default: SdsType | None = None


@dataclass
class SdsDecl:
    kind: str  # class | fun | attr | enum | variant
    name: str
    quoted: bool
    py_name: str
    line: int
    static: bool = False
    doc: str | None = None  # raw text of the (last) documentation comment attached
    todos: list[str] = field(default_factory=list)  # texts of '// TODO ...' lines attached
    comments: list[tuple[str, str, int]] = field(default_factory=list)
    annotations: list[tuple[str, list]] = field(default_factory=list)
    type_params: list[SdsTypeParam] = field(default_factory=list)
    params: list[SdsParam] | None = None
    results: list[SdsResult] | None = None
    parents: list[SdsType] = field(default_factory=list)
    members: list[SdsDecl] = field(default_factory=list)
    has_body: bool = False
    type: SdsType | None = None  # attr

    def walk(self, chain: tuple[str, ...] = ()):
        yield chain, self
        for m in self.members:
            yield from m.walk((*chain, self.py_name))


@dataclass
class SdsImport:
    package: str
    name: str
    alias: str | None
    line: int


@dataclass
class SdsModule:
    filename: str
    doc: str | None
    annotations: list[tuple[str, list]]
    package: str
    py_module: str  # @PythonModule argument, else the package name
    imports: list[SdsImport]
    decls: list[SdsDecl]
    trailing_comments: list[tuple[str, str, int]]
    identifiers: list[Tok]  # every identifier token in the file (for clause-level checks)

    def walk(self):
        for d in self.decls:
            yield from d.walk(())


def render_expr(e: tuple) -> str:
    k = e[0]
    if k in ("int", "float"):
        return e[1]
    if k == "str":
        return '"' + e[1].replace("\\", "\\\\").replace('"', '\\"') + '"'
    if k == "bool":
        return "true" if e[1] else "false"
    if k == "null":
        return "null"
    if k == "unknown":
        return "unknown"
    if k == "neg":
        return "-" + render_expr(e[1])
    if k == "list":
        return "[" + ", ".join(render_expr(x) for x in e[1]) + "]"
    if k == "map":
        return "{" + ", ".join(f"{render_expr(a)}: {render_expr(b)}" for a, b in e[1]) + "}"
    if k == "ref":
        return e[1]
    return f"<{k}>"


def expr_value(e: tuple):
    """Python value of a literal expression; raises ValueError for non-literals."""
    k = e[0]
    if k == "int":
        return int(e[1])
    if k == "float":
        return float(e[1])
    if k in ("str", "bool"):
        return e[1]
    if k == "null":
        return None
    if k == "neg":
        v = expr_value(e[1])
        if isinstance(v, bool) or not isinstance(v, int | float):
            raise ValueError("minus on non-number")
        return -v
    raise ValueError(f"not a literal: {k}")


# --------------------------------------------------------------------------------------------------------- parser


class _Parser:
    def __init__(self, toks: list[Tok], filename: str):
        self.toks = toks
        self.i = 0
        self.filename = filename
        self.identifiers: list[Tok] = []

    # -- helpers
    @property
    def t(self) -> Tok:
        return self.toks[self.i]

    def peek(self, k: int = 1) -> Tok:
        return self.toks[min(self.i + k, len(self.toks) - 1)]

    def err(self, clause: str, msg: str, tok: Tok | None = None) -> SdsSyntaxError:
        tok = tok or self.t
        return SdsSyntaxError(clause, msg + f" (found {tok.kind} {tok.raw!r})", tok.line, tok.col, self.filename)

    def at_p(self, text: str) -> bool:
        return self.t.kind == "P" and self.t.text == text

    def at_kw(self, text: str) -> bool:
        return self.t.kind == "KW" and self.t.text == text

    def eat(self) -> Tok:
        tok = self.t
        self.i += 1
        return tok

    def expect_p(self, text: str, clause: str = "structure") -> Tok:
        if not self.at_p(text):
            raise self.err(clause, f"expected {text!r}")
        return self.eat()

    def expect_kw(self, text: str) -> Tok:
        if not self.at_kw(text):
            raise self.err("structure", f"expected keyword {text!r}")
        return self.eat()

    def ident(self, what: str) -> Tok:
        tok = self.t
        if tok.kind == "ID":
            self.identifiers.append(tok)
            return self.eat()
        if tok.kind == "KW":
            raise self.err("keyword-unquoted", f"keyword {tok.text!r} used as {what} without back-quotes")
        raise self.err("identifier", f"expected identifier for {what}")

    def qualified_name(self, what: str) -> str:
        parts = [self.ident(what).text]
        while self.at_p(".") and self.peek().kind in ("ID", "KW"):
            self.eat()
            parts.append(self.ident(what).text)
        return ".".join(parts)

    # -- annotations
    def annotation_calls(self) -> tuple[list[tuple[str, list]], list[tuple[str, str, int]]]:
        anns = []
        comments: list[tuple[str, str, int]] = []
        while self.at_p("@"):
            comments += self.t.comments
            self.eat()
            name = self.ident("annotation name").text
            args: list = []
            if self.at_p("("):
                self.eat()
                while not self.at_p(")"):
                    # named argument?
                    if self.t.kind == "ID" and self.peek().kind == "P" and self.peek().text == "=":
                        self.eat()
                        self.eat()
                    args.append(self.expression())
                    if self.at_p(","):
                        self.eat()
                    elif not self.at_p(")"):
                        raise self.err("brackets", "expected ',' or ')' in annotation call")
                self.expect_p(")", "brackets")
            anns.append((name, args))
        return anns, comments

    @staticmethod
    def _python_name(anns: list[tuple[str, list]], default: str) -> str:
        for name, args in anns:
            if name == "PythonName" and len(args) == 1 and args[0][0] == "str":
                return args[0][1]
        return default

    # -- module
    def module(self) -> SdsModule:
        anns, first_comments = self.annotation_calls()
        if not self.at_kw("package"):
            raise self.err("module-shape", "expected 'package' declaration")
        first_comments += self.t.comments
        self.eat()
        package = self.qualified_name("package segment")
        doc = None
        for kind, text, _ in first_comments:
            if kind == "doc":
                doc = text
        py_module = package
        for name, args in anns:
            if name == "PythonModule" and len(args) == 1 and args[0][0] == "str":
                py_module = args[0][1]
        imports: list[SdsImport] = []
        while self.at_kw("from"):
            line = self.t.line
            self.eat()
            from_ = self.qualified_name("import package segment")
            self.expect_kw("import")
            while True:
                if self.at_p("*"):
                    self.eat()
                    imports.append(SdsImport(from_, "*", None, line))
                else:
                    name = self.ident("imported declaration").text
                    alias = None
                    if self.at_kw("as"):
                        self.eat()
                        alias = self.ident("import alias").text
                    imports.append(SdsImport(from_, name, alias, line))
                if self.at_p(","):
                    self.eat()
                    continue
                break
        decls = []
        while self.t.kind != "EOF":
            if self.at_kw("package"):
                raise self.err("module-shape", "second 'package' declaration")
            if self.at_kw("from"):
                raise self.err("module-shape", "import after a declaration")
            decls.append(self.declaration(in_class=False))
        return SdsModule(
            self.filename, doc, anns, package, py_module, imports, decls, list(self.t.comments), self.identifiers,
        )

    # -- declarations
    def declaration(self, in_class: bool) -> SdsDecl:
        # comments are attached to the token they precede; gather those of every token up to the declaration keyword
        anns, comments = self.annotation_calls()
        static = False
        while self.at_kw("static") or self.at_kw("internal") or self.at_kw("private"):
            if self.at_kw("static"):
                static = True
            comments += self.t.comments
            self.eat()
        comments += self.t.comments
        tok = self.t
        if self.at_kw("class"):
            d = self.class_(anns)
        elif self.at_kw("fun"):
            d = self.fun(anns)
        elif self.at_kw("attr"):
            if not in_class:
                raise self.err("module-shape", "'attr' outside a class")
            d = self.attr(anns)
        elif self.at_kw("enum"):
            d = self.enum(anns)
        elif self.at_kw("annotation") or self.at_kw("pipeline") or self.at_kw("segment") or self.at_kw("schema"):
            raise self.err("module-shape", f"unsupported declaration kind {tok.text!r} in a stub")
        else:
            raise self.err("module-shape", "expected a declaration (class, fun, attr, enum)")
        d.static = static
        d.comments = comments
        for kind, text, _ in comments:
            if kind == "doc":
                d.doc = text
            elif kind == "sl" and text.startswith("// TODO"):
                d.todos.append(text[len("// TODO") :].strip())
        return d

    def type_params(self) -> list[SdsTypeParam]:
        out: list[SdsTypeParam] = []
        if not self.at_p("<"):
            return out
        self.eat()
        while not self.at_p(">"):
            self.annotation_calls()
            variance = ""
            if self.at_kw("in") or self.at_kw("out"):
                variance = self.eat().text
            name = self.ident("type parameter")
            bound = default = None
            if self.at_kw("sub"):
                self.eat()
                bound = self.type_()
            if self.at_p("="):
                self.eat()
                default = self.type_()
            out.append(SdsTypeParam(name.text, name.quoted, variance, bound, default))
            if self.at_p(","):
                self.eat()
            elif not self.at_p(">"):
                raise self.err("brackets", "expected ',' or '>' in type parameter list")
        self.expect_p(">", "brackets")
        return out

    def params(self) -> list[SdsParam]:
        self.expect_p("(", "brackets")
        out: list[SdsParam] = []
        while not self.at_p(")"):
            anns, _ = self.annotation_calls()
            if self.at_kw("const"):
                self.eat()
            name = self.ident("parameter")
            typ = default = None
            if self.at_p(":"):
                self.eat()
                typ = self.type_()
            if self.at_p("="):
                self.eat()
                default = self.expression()
            out.append(SdsParam(name.text, name.quoted, self._python_name(anns, name.text), typ, default, anns, name.line))
            if self.at_p(","):
                self.eat()
            elif not self.at_p(")"):
                raise self.err("brackets", "expected ',' or ')' in parameter list")
        self.expect_p(")", "brackets")
        return out

    def results(self) -> list[SdsResult]:
        out: list[SdsResult] = []

        def one() -> SdsResult:
            anns, _ = self.annotation_calls()
            name = self.ident("result")
            typ = None
            if self.at_p(":"):
                self.eat()
                typ = self.type_()
            return SdsResult(name.text, name.quoted, self._python_name(anns, name.text), typ, name.line)

        if self.at_p("("):
            self.eat()
            while not self.at_p(")"):
                out.append(one())
                if self.at_p(","):
                    self.eat()
                elif not self.at_p(")"):
                    raise self.err("brackets", "expected ',' or ')' in result list")
            self.expect_p(")", "brackets")
        else:
            out.append(one())
        return out

    def class_(self, anns) -> SdsDecl:
        kw = self.expect_kw("class")
        name = self.ident("class name")
        d = SdsDecl("class", name.text, name.quoted, self._python_name(anns, name.text), kw.line, annotations=anns)
        d.type_params = self.type_params()
        if self.at_p("("):
            d.params = self.params()
        if self.at_kw("sub"):
            self.eat()
            d.parents.append(self.type_())
            while self.at_p(","):
                self.eat()
                d.parents.append(self.type_())
        if self.at_kw("where"):
            raise self.err("structure", "constraint lists are not expected in generated stubs")
        if self.at_p("{"):
            self.eat()
            d.has_body = True
            while not self.at_p("}"):
                if self.t.kind == "EOF":
                    raise self.err("brackets", "class body not closed")
                d.members.append(self.declaration(in_class=True))
            self.expect_p("}", "brackets")
        return d

    def fun(self, anns) -> SdsDecl:
        kw = self.expect_kw("fun")
        name = self.ident("function name")
        d = SdsDecl("fun", name.text, name.quoted, self._python_name(anns, name.text), kw.line, annotations=anns)
        d.type_params = self.type_params()
        d.params = self.params()
        d.results = []
        if self.at_p("->"):
            self.eat()
            d.results = self.results()
        return d

    def attr(self, anns) -> SdsDecl:
        kw = self.expect_kw("attr")
        name = self.ident("attribute name")
        d = SdsDecl("attr", name.text, name.quoted, self._python_name(anns, name.text), kw.line, annotations=anns)
        if self.at_p(":"):
            self.eat()
            d.type = self.type_()
        return d

    def enum(self, anns) -> SdsDecl:
        kw = self.expect_kw("enum")
        name = self.ident("enum name")
        d = SdsDecl("enum", name.text, name.quoted, self._python_name(anns, name.text), kw.line, annotations=anns)
        if self.at_p("{"):
            self.eat()
            d.has_body = True
            while not self.at_p("}"):
                if self.t.kind == "EOF":
                    raise self.err("brackets", "enum body not closed")
                vanns, comments = self.annotation_calls()
                comments += self.t.comments
                vname = self.ident("enum variant")
                v = SdsDecl("variant", vname.text, vname.quoted, self._python_name(vanns, vname.text), vname.line, annotations=vanns)
                v.comments = comments
                if self.at_p("("):
                    v.params = self.params()
                d.members.append(v)
            self.expect_p("}", "brackets")
        return d

    # -- types
    def type_(self) -> SdsType:
        t = self.primary_type()
        while self.at_p("?"):
            self.eat()
            t.nullable = True
        return t

    def primary_type(self) -> SdsType:
        if self.at_kw("union"):
            self.eat()
            self.expect_p("<", "brackets")
            args = []
            while not self.at_p(">"):
                args.append(self.type_())
                if self.at_p(","):
                    self.eat()
                elif not self.at_p(">"):
                    raise self.err("brackets", "expected ',' or '>' in union type")
            self.expect_p(">", "brackets")
            return SdsType("union", args=args)
        if self.at_kw("literal"):
            self.eat()
            self.expect_p("<", "brackets")
            lits = []
            while not self.at_p(">"):
                lits.append(self.literal_expression())
                if self.at_p(","):
                    self.eat()
                elif not self.at_p(">"):
                    raise self.err("brackets", "expected ',' or '>' in literal type")
            self.expect_p(">", "brackets")
            return SdsType("literal", literals=lits)
        if self.at_kw("unknown"):
            self.eat()
            return SdsType("unknown")
        if self.at_p("("):
            params = self.params()
            self.expect_p("->", "structure")
            results = self.results()
            return SdsType("callable", params=params, results=results)
        name = self.qualified_name("type name")
        args = []
        if self.at_p("<"):
            self.eat()
            while not self.at_p(">"):
                # named type argument:  T = Int
                if self.t.kind == "ID" and self.peek().kind == "P" and self.peek().text == "=":
                    self.eat()
                    self.eat()
                args.append(self.type_())
                if self.at_p(","):
                    self.eat()
                elif not self.at_p(">"):
                    raise self.err("brackets", "expected ',' or '>' in type argument list")
            self.expect_p(">", "brackets")
        return SdsType("named", name=name, args=args)

    # -- expressions
    def literal_expression(self) -> tuple:
        """Members of literal<...>: the grammar only admits literals here."""
        e = self.unary()
        if e[0] not in ("int", "float", "str", "bool", "null", "neg"):
            raise self.err("literal-member", "member of a literal type is not a literal")
        return e

    def expression(self) -> tuple:
        e = self.unary()
        while (self.t.kind == "P" and self.t.text in ("+", "-", "*", "/", "%", "==", "!=", "<", ">", "<=", ">=", "?:")) or (
            self.t.kind == "KW" and self.t.text in ("and", "or")
        ):
            op = self.eat().text
            r = self.unary()
            e = ("binop", op, e, r)
        return e

    def unary(self) -> tuple:
        if self.at_p("-"):
            self.eat()
            return ("neg", self.unary())
        if self.at_kw("not"):
            self.eat()
            return ("not", self.unary())
        return self.postfix()

    def postfix(self) -> tuple:
        e = self.primary()
        while True:
            if self.at_p(".") or self.at_p("?."):
                self.eat()
                e = ("member", e, self.ident("member access").text)
            elif self.at_p("("):
                self.eat()
                args = []
                while not self.at_p(")"):
                    if self.t.kind == "ID" and self.peek().kind == "P" and self.peek().text == "=":
                        self.eat()
                        self.eat()
                    args.append(self.expression())
                    if self.at_p(","):
                        self.eat()
                    elif not self.at_p(")"):
                        raise self.err("brackets", "expected ',' or ')' in call")
                self.expect_p(")", "brackets")
                e = ("call", e, args)
            elif self.at_p("["):
                self.eat()
                idx = self.expression()
                self.expect_p("]", "brackets")
                e = ("index", e, idx)
            else:
                return e

    def primary(self) -> tuple:
        t = self.t
        if t.kind == "INT":
            self.eat()
            return ("int", t.text)
        if t.kind == "FLOAT":
            self.eat()
            return ("float", t.text)
        if t.kind == "STRING":
            self.eat()
            return ("str", t.text)
        if t.kind == "KW" and t.text in ("true", "false"):
            self.eat()
            return ("bool", t.text == "true")
        if self.at_kw("null"):
            self.eat()
            return ("null",)
        if self.at_kw("unknown"):
            self.eat()
            return ("unknown",)
        if self.at_kw("this"):
            self.eat()
            return ("this",)
        if self.at_p("["):
            self.eat()
            items = []
            while not self.at_p("]"):
                items.append(self.expression())
                if self.at_p(","):
                    self.eat()
                elif not self.at_p("]"):
                    raise self.err("brackets", "expected ',' or ']' in list literal")
            self.expect_p("]", "brackets")
            return ("list", items)
        if self.at_p("{"):
            self.eat()
            items = []
            while not self.at_p("}"):
                k = self.expression()
                self.expect_p(":", "structure")
                v = self.expression()
                items.append((k, v))
                if self.at_p(","):
                    self.eat()
                elif not self.at_p("}"):
                    raise self.err("brackets", "expected ',' or '}' in map literal")
            self.expect_p("}", "brackets")
            return ("map", items)
        if self.at_p("("):
            self.eat()
            e = self.expression()
            self.expect_p(")", "brackets")
            return ("paren", e)
        if t.kind == "ID":
            return ("ref", self.ident("reference").text)
        if t.kind == "KW":
            raise self.err("keyword-unquoted", f"keyword {t.text!r} used as a reference without back-quotes")
        raise self.err("expression", "expected an expression")


def parse_stub(text: str, filename: str = "") -> SdsModule:
    toks = lex(text, filename)
    return _Parser(toks, filename).module()


# ------------------------------------------------------------------------------------------ documentation comments


@dataclass
class DocBlocks:
    description: list[str]  # lines
    params: dict[str, list[str]]  # name -> lines
    results: dict[str, list[str]]
    examples: list[list[str]]  # code lines per example (inside 'pipeline example { ... }')
    raw_lines: list[str]


def parse_doc_comment(doc: str | None) -> DocBlocks:
    """Split '/** ... */' into description, @param, @result and @example blocks (lines with ' * ' removed)."""
    out = DocBlocks([], {}, {}, [], [])
    if not doc:
        return out
    body = doc
    if body.startswith("/**"):
        body = body[3:]
    if body.endswith("*/"):
        body = body[:-2]
    lines = body.split("\n")
    cleaned: list[str] = []
    for idx, ln in enumerate(lines):
        s = ln.strip()
        if idx in (0, len(lines) - 1) and s == "":
            continue
        m = re.match(r"^\s*\*( ?)(.*)$", ln)
        cleaned.append(m.group(2) if m else ln)
    out.raw_lines = cleaned
    cur: list[str] = out.description
    in_example = False
    for ln in cleaned:
        m = re.match(r"^@param (\S+) ?(.*)$", ln)
        if m:
            cur = out.params.setdefault(m.group(1), [])
            cur.append(m.group(2))
            in_example = False
            continue
        m = re.match(r"^@result (\S+) ?(.*)$", ln)
        if m:
            cur = out.results.setdefault(m.group(1), [])
            cur.append(m.group(2))
            in_example = False
            continue
        if ln.strip() == "@example":
            cur = []
            out.examples.append(cur)
            in_example = True
            continue
        if in_example:
            s = ln.strip()
            if s in ("pipeline example {", "}"):
                continue
            cur.append(s)
            continue
        cur.append(ln)
    # trim blank separator lines at block ends
    for block in [out.description, *out.params.values(), *out.results.values()]:
        while block and block[-1].strip() == "":
            block.pop()
    return out
