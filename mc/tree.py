"""Tree enumerator and ground-truth model shared by C03, C04, C10, C12 (DESIGN.md 6/C03 'Tree enumerator').

A *tree* is a small package: a root package directory t<id> (public), optionally one sub-package (public or private),
one module (public or private) holding a subset of declaration letters, optionally declarations in the root
__init__.py, and one re-export form per ancestor __init__.py.  Every name carries the tree id, so that many trees can
be analysed in ONE run (as sub-packages of vpkg) without interacting through the tool's name-keyed tables.

The ground truth (which declarations exist, which are public by the C04 rule, under which names and in which
packages they may legitimately appear) is computed here from the spec, never from the tool.
"""

from __future__ import annotations

import itertools
from dataclasses import dataclass, field

from .pkg import PKG

LETTERS = ["pf", "qf", "pc", "qc", "en", "qe", "ex", "of", "gc"]
INIT_LETTERS = ["", "ic", "if"]
R_FORMS = ["none", "name", "alias", "priv_alias", "to_private", "star", "module", "module_alias", "abs_name", "abs_module_alias"]


def name_public(n: str) -> bool:
    return not n.startswith("_") or (n.startswith("__") and n.endswith("__") and len(n) > 4)


@dataclass
class GDecl:
    kind: str  # function class method property class_attr inst_attr enum enum_member static_method class_method ctor
    name: str
    module: str  # dotted python module path ("vpkg.t0001.sub0001.m0001"; for __init__ files the package path)
    chain: tuple[str, ...]
    letter: str
    in_init: bool = False
    public: bool = False
    aliases: set[str] = field(default_factory=set)  # public aliases it is re-exported under
    locations: set[str] = field(default_factory=set)  # python module paths a stub showing it may announce
    dont_care: bool = False
    is_exception: bool = False

    @property
    def api_id(self) -> str:
        # the id of a package's __init__ module is the package path itself
        return "/".join([self.module.replace(".", "/"), *self.chain, self.name])

    @property
    def stub_kind(self) -> str:
        return {
            "function": "fun", "method": "fun", "static_method": "fun", "class_method": "fun", "class": "class", "property": "attr",
            "class_attr": "attr", "inst_attr": "attr", "enum": "enum", "enum_member": "variant",
        }[self.kind]  # fmt: skip


@dataclass
class TreeSpec:
    tid: int
    depth: int  # 1: t/m.py   2: t/sub/m.py
    mod_private: bool
    sub_private: bool
    letters: tuple[str, ...]
    r_root: str
    r_sub: str = "none"
    init_letter: str = ""
    sibling: str = "none"  # an unrelated sibling package whose __init__ imports a declaration of the module: none | priv_alias | alias | name | star
    shadow: bool = False  # a descendant package (no re-exports) holding a module with the SAME file name and its own declarations
    # filled by build()
    files: dict[str, str] = field(default_factory=dict)
    decls: list[GDecl] = field(default_factory=list)
    modules: list[str] = field(default_factory=list)  # dotted module ids incl. packages (as <pkg>.__init__ ids in the API)

    @property
    def T(self) -> str:  # noqa: N802
        return f"{self.tid:04d}"

    @property
    def label(self) -> str:
        place = f"d{self.depth}:{'_' if self.sub_private else ''}{'sub/' if self.depth == 2 else ''}{'_' if self.mod_private else ''}m"
        return f"{place}|{'+'.join(self.letters)}{'|init:' + self.init_letter if self.init_letter else ''}{'|sib:' + self.sibling if self.sibling != 'none' else ''}{'|shadow' if self.shadow else ''}|root:{self.r_root}|sub:{self.r_sub}"

    @property
    def root_pkg(self) -> str:
        return f"{PKG}.t{self.T}"


def _module_source(T: str, letters) -> tuple[str, list[tuple]]:  # noqa: N803
    """Source text of the module and its declarations as (kind, name, chain, letter, is_exception)."""
    src: list[str] = []
    d: list[tuple] = []
    if "en" in letters or "qe" in letters:
        src.append("from enum import Enum\n")
    if "pc" in letters or "of" in letters:
        src.append("from typing import overload\n")
    if "gc" in letters:
        src.append(f"from typing import Generic, TypeVar\n\nTV{T} = TypeVar(\"TV{T}\")\n")
    for L in letters:  # noqa: N806
        if L == "pf":
            src.append(f"def pf{T}(a: int) -> int:\n    return a\n")
            d.append(("function", f"pf{T}", (), L, False))
        elif L == "qf":
            src.append(f"def _qf{T}(a: int) -> int:\n    return a\n")
            d.append(("function", f"_qf{T}", (), L, False))
        elif L == "pc":
            src.append(
                f"class Pc{T}:\n    ca{T}: int = 1\n    _cq{T}: int = 2\n\n"
                f"    def __init__(self, p: int) -> None:\n        self.ia{T}: int = p\n        self._iq{T}: int = p\n        self.ta{T}, self._tq{T} = p, p\n\n"
                f"    @overload\n    def om{T}(self, a: int) -> int: ...\n    @overload\n    def om{T}(self, a: str) -> str: ...\n    def om{T}(self, a):\n        return a\n\n"
                f"    @overload\n    @staticmethod\n    def os{T}(a: int) -> int: ...\n    @overload\n    @staticmethod\n    def os{T}(a: str) -> str: ...\n    @staticmethod\n    def os{T}(a):\n        return a\n\n"
                f"    @property\n    def ps{T}(self) -> int:\n        return 1\n\n    @ps{T}.setter\n    def ps{T}(self, v: int) -> None:\n        ...\n\n"
                f"    def pm{T}(self, a: int) -> int:\n        return a\n\n"
                f"    def _qm{T}(self) -> int:\n        return 1\n\n"
                f"    def __dm{T}(self) -> int:\n        return 1\n\n"
                f"    def __call__(self) -> int:\n        return 1\n\n"
                f"    @property\n    def pr{T}(self) -> int:\n        return 1\n\n"
                f"    @staticmethod\n    def sm{T}(a: int) -> int:\n        return a\n\n"
                f"    @classmethod\n    def cm{T}(cls) -> int:\n        return 1\n\n"
                f"    class Ni{T}:\n        def nm{T}(self) -> int:\n            return 1\n\n"
                f"    class _Nq{T}:\n        def nqm{T}(self) -> int:\n            return 1\n",
            )
            c = (f"Pc{T}",)
            d += [
                ("class", f"Pc{T}", (), L, False), ("class_attr", f"ca{T}", c, L, False), ("class_attr", f"_cq{T}", c, L, False),
                ("inst_attr", f"ia{T}", c, L, False), ("inst_attr", f"_iq{T}", c, L, False), ("method", f"pm{T}", c, L, False),
                ("inst_attr", f"ta{T}", c, L, False), ("inst_attr", f"_tq{T}", c, L, False), ("method", f"om{T}", c, L, False), ("static_method", f"os{T}", c, L, False), ("property", f"ps{T}", c, L, False),
                ("method", f"_qm{T}", c, L, False), ("method", f"__dm{T}", c, L, False), ("method", "__call__", c, L, False), ("property", f"pr{T}", c, L, False),
                ("static_method", f"sm{T}", c, L, False), ("class_method", f"cm{T}", c, L, False), ("class", f"Ni{T}", c, L, False),
                ("method", f"nm{T}", (*c, f"Ni{T}"), L, False), ("class", f"_Nq{T}", c, L, False), ("method", f"nqm{T}", (*c, f"_Nq{T}"), L, False),
            ]  # fmt: skip
        elif L == "qc":
            src.append(f"class _Qc{T}:\n    qca{T}: int = 1\n\n    def qcm{T}(self) -> int:\n        return 1\n\n    def __len__(self) -> int:\n        return 1\n\n    class Qn{T}:\n        def __iter__(self) -> int:\n            return 1\n")
            c = (f"_Qc{T}",)
            d += [("class", f"_Qc{T}", (), L, False), ("class_attr", f"qca{T}", c, L, False), ("method", f"qcm{T}", c, L, False), ("method", "__len__", c, L, False),
                  ("class", f"Qn{T}", c, L, False), ("method", "__iter__", (*c, f"Qn{T}"), L, False)]
        elif L == "en":
            src.append(f"class En{T}(Enum):\n    EA{T} = 1\n    EB{T} = 2\n")
            d += [("enum", f"En{T}", (), L, False), ("enum_member", f"EA{T}", (f"En{T}",), L, False), ("enum_member", f"EB{T}", (f"En{T}",), L, False)]
        elif L == "qe":
            src.append(f"class _Qe{T}(Enum):\n    QA{T} = 1\n")
            d += [("enum", f"_Qe{T}", (), L, False), ("enum_member", f"QA{T}", (f"_Qe{T}",), L, False)]
        elif L == "gc":
            # a generic class whose attributes / parameters / results have the type variable as type
            src.append(
                f"class Gc{T}(Generic[TV{T}]):\n    gv{T}: TV{T}\n    gl{T}: list[TV{T}] = []\n\n"
                f"    def __init__(self, p: TV{T}) -> None:\n        self.gi{T}: TV{T} = p\n        self.gj{T} = p\n\n"
                f"    def gm{T}(self, a: TV{T}) -> TV{T}:\n        return a\n",
            )
            c = (f"Gc{T}",)
            d += [("class", f"Gc{T}", (), L, False), ("class_attr", f"gv{T}", c, L, False), ("class_attr", f"gl{T}", c, L, False), ("inst_attr", f"gi{T}", c, L, False),
                  ("inst_attr", f"gj{T}", c, L, False), ("method", f"gm{T}", c, L, False)]
        elif L == "of":
            src.append(f"@overload\ndef of{T}(a: int) -> int: ...\n@overload\ndef of{T}(a: str) -> str: ...\ndef of{T}(a):\n    return a\n")
            d.append(("function", f"of{T}", (), L, False))
        elif L == "ex":
            src.append(f"class Ex{T}(Exception):\n    def exm{T}(self) -> int:\n        return 1\n")
            d += [("class", f"Ex{T}", (), L, True), ("method", f"exm{T}", (f"Ex{T}",), L, True)]
    return "\n\n".join(src), d


def _target(letters, T, private: bool) -> str | None:  # noqa: N803
    """The declaration a by-name re-export form names."""
    if private:
        return f"_Qc{T}" if "qc" in letters else (f"_qf{T}" if "qf" in letters else (f"_Qe{T}" if "qe" in letters else None))
    return f"Pc{T}" if "pc" in letters else (f"pf{T}" if "pf" in letters else (f"En{T}" if "en" in letters else (f"Ex{T}" if "ex" in letters else (f"of{T}" if "of" in letters else (f"Gc{T}" if "gc" in letters else None)))))


def build(spec: TreeSpec) -> TreeSpec | None:
    """Render files and compute the ground truth.  Returns None if the spec is not realisable (missing target)."""
    T = spec.T  # noqa: N806
    mod = ("_" if spec.mod_private else "") + f"m{T}"
    sub = ("_" if spec.sub_private else "") + f"sub{T}"
    root = spec.root_pkg
    rdir = f"{PKG}/t{T}"
    if spec.depth == 1:
        mod_dotted, mod_file, rel_from_root = f"{root}.{mod}", f"{rdir}/{mod}.py", f".{mod}"
    else:
        mod_dotted, mod_file, rel_from_root = f"{root}.{sub}.{mod}", f"{rdir}/{sub}/{mod}.py", f".{sub}.{mod}"
    text, mdecls = _module_source(T, spec.letters)
    pub_t, priv_t = _target(spec.letters, T, False), _target(spec.letters, T, True)

    def form(kind: str, rel_mod: str, abs_mod: str, pkg_rel: str, modname: str) -> tuple[str, list[tuple]] | None:
        """(import line, exports) where exports are (target name | '*' | '<module>', exported name)."""
        if kind == "none":
            return "", []
        if kind == "name":
            return (f"from {rel_mod} import {pub_t}\n", [(pub_t, pub_t)]) if pub_t else None
        if kind == "abs_name":
            return (f"from {abs_mod} import {pub_t}\n", [(pub_t, pub_t)]) if pub_t else None
        if kind == "alias":
            return (f"from {rel_mod} import {pub_t} as Al{T}\n", [(pub_t, f"Al{T}")]) if pub_t else None
        if kind == "priv_alias":
            return (f"from {rel_mod} import {priv_t} as Pa{T}\n", [(priv_t, f"Pa{T}")]) if priv_t else None
        if kind == "to_private":
            return (f"from {rel_mod} import {pub_t} as _Hid{T}\n", [(pub_t, f"_Hid{T}")]) if pub_t else None
        if kind == "star":
            return f"from {rel_mod} import *\n", [("*", "*")]
        if kind == "module":
            return f"from {pkg_rel} import {modname}\n", [("<module>", modname)]
        if kind == "module_alias":
            return f"from {pkg_rel} import {modname} as ma{T}\n", [("<module>", f"ma{T}")]
        if kind == "abs_module_alias":
            return f"import {abs_mod} as mb{T}\n", [("<module>", f"mb{T}")]
        raise AssertionError(kind)

    files: dict[str, str] = {}
    exports: list[tuple[str, str, str]] = []  # (package dotted, target, exported name)
    if spec.depth == 1:
        fr = form(spec.r_root, f".{mod}", mod_dotted, ".", mod)
        if fr is None or spec.r_sub != "none":
            return None
        root_init = fr[0]
        exports += [(root, t, e) for t, e in fr[1]]
    else:
        fs = form(spec.r_sub, f".{mod}", mod_dotted, ".", mod)
        if fs is None:
            return None
        sub_exports = fs[1]
        if spec.r_root == "chain":
            # root re-exports what the sub package exports by name
            named = [(t, e) for t, e in sub_exports if t not in ("*", "<module>") and name_public(e)]
            if not named:
                return None
            t0, e0 = named[0]
            fr = (f"from .{sub} import {e0}\n", [(t0, e0)])
        else:
            fr = form(spec.r_root, rel_from_root, mod_dotted, f".{sub}", mod)
            if fr is None:
                return None
        root_init = fr[0]
        files[f"{rdir}/{sub}/__init__.py"] = fs[0]
        # a private sub-package does not make anything public, but it is a package that re-exports (a legitimate location)
        exports += [(f"{root}.{sub}", t, e if not spec.sub_private else "_" + e) for t, e in sub_exports]
        exports += [(root, t, e) for t, e in fr[1]]
    # sibling package that imports (for its own use / re-exports) a declaration of the module by absolute import
    if spec.sibling != "none":
        sdir = f"{rdir}/sib{T}"
        if spec.sibling == "star":
            line = f"from {mod_dotted} import *\n"
            sib_exports = [("*", "*")]
        else:
            if pub_t is None:
                return None
            ali = {"priv_alias": f"_SibHid{T}", "alias": f"SibAl{T}", "name": None}[spec.sibling]
            line = f"from {mod_dotted} import {pub_t}" + (f" as {ali}" if ali else "") + "\n"
            sib_exports = [(pub_t, ali or pub_t)]
        files[f"{sdir}/__init__.py"] = line
        files[f"{sdir}/smod{T}.py"] = f"def sibfn{T}() -> int:\n    return 1\n"
        exports += [(f"{root}.sib{T}", t, e) for t, e in sib_exports]
    init_src = ""
    idecls: list[tuple] = []
    if spec.init_letter == "ic":
        init_src = f"\n\nclass Ic{T}:\n    def icm{T}(self) -> int:\n        return 1\n"
        idecls = [("class", f"Ic{T}", (), "ic", False), ("method", f"icm{T}", (f"Ic{T}",), "ic", False)]
    elif spec.init_letter == "if":
        init_src = f"\n\ndef if{T}(a: int) -> int:\n    return a\n"
        idecls = [("function", f"if{T}", (), "if", False)]
    files[f"{rdir}/__init__.py"] = root_init + init_src
    files[mod_file] = text + "\n"

    # ---- ground truth publicity
    segs = ([sub] if spec.depth == 2 else []) + [mod]
    path_public = all(name_public(s) for s in segs)
    decls: list[GDecl] = []
    top: dict[str, GDecl] = {}
    for kind, name, chain, letter, is_exc in mdecls:
        g = GDecl(kind, name, mod_dotted, chain, letter, is_exception=is_exc)
        if not chain:
            g.public = name_public(name) and path_public
            g.locations = {mod_dotted}
            for pkg, target, exported in exports:
                via_private_pkg = exported.startswith("_") and spec.depth == 2 and spec.sub_private and pkg == f"{root}.{sub}"
                hit = False
                if target == name:
                    g.locations.add(pkg)
                    if name_public(exported):
                        g.public = True
                        g.aliases.add(exported)
                    hit = True
                elif target == "*" and name_public(name):
                    g.public = True
                    g.locations.add(pkg)
                elif target == "<module>":
                    g.locations.add(pkg)
                    if name_public(exported) and name_public(name):
                        g.public = True
                    hit = name_public(name)
                elif target == "*":
                    hit = False
                if via_private_pkg and (hit or (target == "*" and name_public(name))):
                    # re-exported by the __init__ of a PRIVATE package under a public name: the statement's exception
                    # ("unless a package __init__ re-exports it under a public name") does not say whether that counts
                    private_pkg_export = exported[1:]
                    if name_public(private_pkg_export) and (target != "*" or name_public(name)):
                        g.aliases.add(private_pkg_export) if target == name else None
                        g.dont_care = g.dont_care or not g.public
            top[name] = g
        decls.append(g)
    for g in decls:
        if g.chain:
            owner = top[g.chain[0]]
            ok = owner.public
            for c in g.chain[1:]:
                ok = ok and name_public(c)
            g.public = ok and name_public(g.name)
            g.locations = set(owner.locations)
            g.is_exception = owner.is_exception
            g.dont_care = owner.dont_care
    shadow_modules: list[str] = []
    if spec.shadow:
        # same module file name below a descendant package that re-exports nothing: only the names decide
        if spec.depth != 1:
            return None
        sh_pkg, sh_dir = f"{root}.shd{T}", f"{rdir}/shd{T}"
        sh_text, sh_decls = _module_source("s" + T, spec.letters)
        files[f"{sh_dir}/__init__.py"] = ""
        files[f"{sh_dir}/{mod}.py"] = sh_text + "\n"
        sh_top: dict[str, GDecl] = {}
        for kind, name, chain, letter, is_exc in sh_decls:
            g = GDecl(kind, name, f"{sh_pkg}.{mod}", chain, letter, is_exception=is_exc)
            g.locations = {f"{sh_pkg}.{mod}"}
            if not chain:
                g.public = name_public(name) and name_public(mod)
                sh_top[name] = g
            else:
                g.public = sh_top[chain[0]].public and all(name_public(c) for c in chain[1:]) and name_public(name)
            decls.append(g)
        shadow_modules = [sh_pkg, f"{sh_pkg}.{mod}"]
    for kind, name, chain, letter, _ in idecls:
        g = GDecl(kind, name, root, chain, letter, in_init=True)
        g.public = name_public(name)
        g.locations = {root}
        decls.append(g)
    spec.files = files
    spec.decls = decls
    spec.modules = [root, mod_dotted] + ([f"{root}.{sub}"] if spec.depth == 2 else []) + shadow_modules
    return spec


def enumerate_trees(tier: str) -> list[TreeSpec]:
    """B1 (quick): one module, letter subsets of size <= 2, every re-export form at every ancestor init."""
    specs: list[TreeSpec] = []
    tid = itertools.count(1)
    subsets = [(a,) for a in LETTERS] + list(itertools.combinations(LETTERS, 2))
    if tier == "thorough":
        subsets += [("pf", "qf", "pc"), ("pc", "qc", "en"), ("pf", "pc", "qc", "en", "qe", "ex"), tuple(LETTERS)]
    root_forms_d2 = [*R_FORMS, "chain"]
    for letters in subsets:
        # depth 1: an unrelated sibling package imports a declaration of the module
        for mod_private in (False, True):
            for sib in ("priv_alias", "alias", "name", "star"):
                for r in ("none", "name"):
                    s = build(TreeSpec(next(tid), 1, mod_private, False, letters, r, "none", "", sib))
                    if s:
                        specs.append(s)
        # depth 1: a descendant package has a module with the same file name (nothing re-exports that one)
        if len(letters) == 1 or letters == ("pf", "pc"):
            for mod_private in (False, True):
                for r in R_FORMS:
                    s = build(TreeSpec(next(tid), 1, mod_private, False, letters, r, "none", "", "none", True))
                    if s:
                        specs.append(s)
        # depth 1
        for mod_private in (False, True):
            for r in R_FORMS:
                for il in (INIT_LETTERS if r == "none" and not mod_private else [""]):
                    s = build(TreeSpec(next(tid), 1, mod_private, False, letters, r, "none", il))
                    if s:
                        specs.append(s)
        # depth 2
        for mod_private in (False, True):
            for sub_private in (False, True):
                for r_sub in R_FORMS:
                    for r_root in root_forms_d2:
                        both = r_sub != "none" and r_root != "none"
                        if both and r_root != "chain" and tier != "thorough":
                            # quick: two simultaneous re-exports only as chain, or the same form at both levels
                            if r_root != r_sub:
                                continue
                        s = build(TreeSpec(next(tid), 2, mod_private, sub_private, letters, r_root, r_sub))
                        if s:
                            specs.append(s)
    return specs


def pack_trees(specs: list[TreeSpec]) -> tuple[dict[str, str], str]:
    files = {f"{PKG}/__init__.py": ""}
    for s in specs:
        files.update(s.files)
    return files, PKG


def run_trees(rep, specs: list[TreeSpec], opts_list, judge, per_run: int = 120) -> dict[str, int]:
    """Analyse all trees (packed per_run per tool run) under each option set; judge(spec, opts, idx, api, obs)."""
    from .driver import Obs
    from .explore import run_packed
    from .pkg import api_index, index_stubs

    stats: dict[str, int] = {}
    groups = []
    for opts in opts_list:
        for i in range(0, len(specs), per_run):
            groups.append((specs[i : i + per_run], opts))

    def on_group(units, opts, obs: Obs, files) -> None:
        if obs.outcome != "completed":
            for s in units:
                rep.case(f"{s.label}|{opts.key()}")
                rep.violation(
                    "run-completes", f"run:{obs.outcome}:{obs.crash_sig()}:{s.label}", {"tree": s.label, "exc": obs.exc_type + ": " + obs.exc_msg, "tb": obs.exc_tb[-500:]},
                    files=pack_trees([s])[0], src_rel=PKG, opts=opts, obs=obs,
                )
            return
        idx = index_stubs(obs)
        api = api_index(obs)
        for s in units:
            rep.case(f"{s.label}|{opts.key()}", True, sample={"tree": s.label, "files": s.files} if s.tid % 397 == 0 else None)
            judge(s, opts, idx, api, obs)

    run_packed(groups, lambda units: pack_trees(units), on_group, stats)
    return stats


def stub_pymodule_of(idx, path: str) -> str:
    m = idx.modules.get(path)
    return m.py_module if m else "?"
