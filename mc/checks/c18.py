"""C18 - a module's stub depends only on what the module uses (E1 over run pairs, metamorphic oracle)."""

from __future__ import annotations

import re

from ..driver import Obs, Opts
from ..explore import run_packed
from ..pkg import PKG
from ..report import Report
from ..sds_parser import SdsSyntaxError, parse_stub
from ..tree import TreeSpec, build, enumerate_trees
from .c11 import TARGET_NAMES, targets, unit_files

MUTATIONS = ["add_fresh", "add_same_decl_names", "add_same_module_name", "add_reexporting_pkg_same_names", "add_star_reexport_same_module_name", "add_pkg_named_like_decl", "add_same_referenced_class", "add_alias_reexport_same_names", "add_star_reexported_same_class_used_earlier"]


def decl_names(unit) -> list[str]:
    if unit["kind"] == "tree":
        return [g.name for g in unit["spec"].decls if not g.chain][:3] or [f"none{unit['T']}"]
    return [f"f{unit['T']}a", f"K{unit['T']}a"]


def mutate(unit, mu: str) -> dict[str, str]:
    """Files of an UNRELATED addition for this unit (placed in a new sibling package x<T> of the unit's root)."""
    T = unit["T"]  # noqa: N806
    x = f"{PKG}/x{T}"
    names = decl_names(unit)
    # (the methods USE self: only names that occur in expressions enter the analyser's package-wide alias table)
    cls_src = lambda n: f"class {n}:\n    def um{T}(self, a: int) -> str:\n        return self.uh{T}()\n\n    def uh{T}(self) -> str:\n        return ''\n"  # noqa: E731
    fun_src = lambda n: f"def {n}(z: str, y: str = 'u') -> str:\n    return z\n"  # noqa: E731

    def as_src(n: str) -> str:
        return cls_src(n) if n[0].isupper() or n.lstrip("_")[:1].isupper() else fun_src(n)

    if mu == "add_fresh":
        return {f"{x}/__init__.py": "", f"{x}/um{T}.py": cls_src(f"Fresh{T}") + "\n\n" + fun_src(f"fresh{T}")}
    if mu == "add_same_decl_names":
        return {f"{x}/__init__.py": "", f"{x}/um{T}.py": "\n\n".join(as_src(n) for n in names)}
    if mu == "add_same_module_name":
        return {f"{x}/__init__.py": "", f"{x}/{unit['modname']}.py": cls_src(f"Fresh{T}")}
    if mu == "add_reexporting_pkg_same_names":
        pub = [n for n in names if not n.startswith("_")] or [f"Fresh{T}"]
        return {f"{x}/__init__.py": "".join(f"from ._u{T} import {n}\n" for n in pub), f"{x}/_u{T}.py": "\n\n".join(as_src(n) for n in pub)}
    if mu == "add_star_reexport_same_module_name":
        return {f"{x}/__init__.py": f"from .{unit['modname']} import *\n", f"{x}/{unit['modname']}.py": cls_src(f"Fresh{T}")}
    if mu == "add_pkg_named_like_decl":
        n = next((n for n in names if not n.startswith("_")), f"fresh{T}")
        return {f"{x}/__init__.py": "", f"{x}/{n}/__init__.py": "", f"{x}/{n}/{n}.py": fun_src(f"inner{T}")}
    if mu == "add_same_referenced_class":
        ref = unit.get("ref_names") or [f"Fresh{T}"]
        return {f"{x}/__init__.py": "", f"{x}/um{T}.py": "\n\n".join(cls_src(n) for n in ref)}
    if mu == "add_star_reexported_same_class_used_earlier":
        # a package that sorts BEFORE the unit: star re-exports its own class named like the referenced class and uses it
        ref = (unit.get("ref_names") or [f"Fresh{T}"])[0]
        e = f"{PKG}/a{T}e"
        return {f"{e}/__init__.py": f"from ._s{T} import *\n", f"{e}/_s{T}.py": cls_src(ref), f"{e}/use{T}.py": f"from ._s{T} import {ref}\n\n\ndef early{T}(p: {ref}) -> {ref}:\n    return p\n"}
    if mu == "add_alias_reexport_same_names":
        pub = [n for n in names if not n.startswith("_")] or [f"Fresh{T}"]
        return {f"{x}/__init__.py": f"from ._u{T} import Other{T} as {pub[0]}\n", f"{x}/_u{T}.py": cls_src(f"Other{T}")}
    raise AssertionError(mu)


HEADER = "from enum import Enum\nfrom typing import Generic, TypeVar\n\nT = TypeVar(\"T\")\n"

# declaration kinds for the adjacency part: each leaves a different piece of per-declaration analysis state behind (type
# variables gathered, current class, docstring cache, inferred results, ...) and each is a possible victim of such state
MENU: dict[str, str] = {
    "gen_cls_attr": "class G@(Generic[T]):\n    value: T\n",
    "gen_cls_method": "class H@(Generic[T]):\n    def get@(self, d: T) -> T:\n        return d\n",
    "gen_fun": "def gf@(x: T) -> T:\n    return x\n",
    "fun_plain": "def f@(x: int) -> int:\n    return x\n",
    "fun_noparam": "def n@() -> None:\n    pass\n",
    "fun_tuple": "def t@(x: int) -> tuple[int, str]:\n    return x, \"\"\n",
    "fun_infer": "def i@(x):\n    if x:\n        return 1\n    return \"\"\n",
    "fun_doc": "def d@(x: int) -> bool:\n    \"\"\"Summary of d@.\n\n    Parameters\n    ----------\n    x : int\n        the x of d@\n\n    Returns\n    -------\n    r : bool\n        the r of d@\n    \"\"\"\n    return True\n",
    "cls_init": "class C@:\n    def __init__(self, a: int) -> None:\n        self.a = a\n",
    "cls_method": "class M@:\n    def m@(self, b: str) -> str:\n        return b\n",
    "cls_attr": "class A@:\n    x@: int = 1\n    y@ = \"s\"\n",
    "cls_nested": "class N@:\n    class Inner@:\n        z@: int = 1\n",
    "cls_prop": "class P@:\n    @property\n    def p@(self) -> int:\n        return 1\n",
    "cls_static": "class S@:\n    @staticmethod\n    def s@(q: int) -> int:\n        return q\n\n    @classmethod\n    def c@(cls, q: int) -> int:\n        return q\n",
    "cls_internal_base": "class _B@:\n    def pm@(self, w: T) -> T:\n        return w\n\n\nclass D@(_B@):\n    pass\n",
    # two kinds that share a FIXED private class name: nested in a public class / on top level as the base of a public class
    "cls_nested_private_named": "class W@:\n    class _OptS:\n        def raw@(self) -> int:\n            return 1\n",
    "cls_base_same_private_name": "class _OptS:\n    def describe@(self) -> int:\n        return 1\n\n\nclass Btn@(_OptS):\n    pass\n",
    "enum": "class E@(Enum):\n    A@ = 1\n    B@ = 2\n",
    "gvar": "v@: int = 1\n",
}
KINDS = list(MENU)


def chunk(kind: str, suffix: str) -> str:
    return MENU[kind].replace("@", suffix)


HEIR = "heir_of_observed_private_base"  # the unrelated modules hold further public subclasses of the OBSERVED module's private class
ENDERS = [*KINDS, HEIR]


def adjacency_pkg(ender: str | None) -> dict[str, str]:
    """One observed module per kind (p<jj>b); with an ender, two unrelated modules holding that kind around each (p<jj>a, p<jj>c)."""
    files = {f"{PKG}/__init__.py": ""}
    for j, kind in enumerate(KINDS):
        files[f"{PKG}/p{j:02d}b.py"] = HEADER + "\n\n" + chunk(kind, f"v{j:02d}")
        if ender == HEIR:
            if kind == "cls_internal_base":
                for side in ("a", "c"):
                    files[f"{PKG}/p{j:02d}{side}.py"] = f"from {PKG}.p{j:02d}b import _Bv{j:02d}\n\n\nclass Heir{side}{j:02d}(_Bv{j:02d}):\n    pass\n"
        elif ender is not None:
            files[f"{PKG}/p{j:02d}a.py"] = HEADER + "\n\n" + chunk(ender, f"ua{j:02d}")
            files[f"{PKG}/p{j:02d}c.py"] = HEADER + "\n\n" + chunk(ender, f"uc{j:02d}")
    return files


def order_pkg(reverse: bool) -> dict[str, str]:
    """One module per ordered pair of different kinds: q<ii>_<jj> holds kind i then kind j (or, reversed, j then i)."""
    files = {f"{PKG}/__init__.py": ""}
    for i, ki in enumerate(KINDS):
        for j, kj in enumerate(KINDS):
            if i == j:
                continue
            parts = [chunk(ki, f"x{i:02d}{j:02d}"), chunk(kj, f"y{i:02d}{j:02d}")]
            if reverse:
                parts.reverse()
            files[f"{PKG}/q{i:02d}_{j:02d}.py"] = HEADER + "\n\n" + "\n\n".join(parts)
    return files


def top_level_texts(stub: str) -> tuple[str, list[str]] | None:
    """(header incl. imports, sorted list of top-level declaration texts) of a stub, split on blank lines at depth 0."""
    try:
        m = parse_stub(stub)
    except SdsSyntaxError:
        return None
    lines = stub.split("\n")
    starts = []
    for d in m.decls:
        ln = min([d.line] + [c[2] for c in d.comments])
        starts.append(ln - 1)
    if not starts:
        return stub, []
    # annotations precede the keyword line: move each start up over annotation / comment lines
    for i, s in enumerate(starts):
        while s > 0 and lines[s - 1].strip() and not lines[s - 1].startswith(("package", "from ")):
            s -= 1
        starts[i] = s
    starts = sorted(set(starts))
    header = "\n".join(lines[: starts[0]])
    chunks = []
    for a, b in zip(starts, [*starts[1:], len(lines)], strict=True):
        chunks.append("\n".join(lines[a:b]).strip("\n"))
    return header.strip("\n"), sorted(chunks)


def run(rep: Report, tier: str, seed: int) -> None:
    units = []
    specs = enumerate_trees("quick")
    specs = specs[:: (7 if tier == "quick" else 2)]
    for s in specs:
        modname = ("_" if s.mod_private else "") + f"m{s.T}"
        units.append({"kind": "tree", "T": s.T, "spec": s, "files": dict(s.files), "root": f"{PKG}/t{s.T}", "modname": modname, "label": "tree:" + s.label})
    tid = 9000
    c11_targets = TARGET_NAMES if tier == "thorough" else ["sibling_rel", "sibling_abs", "reexp_name_via_pkg", "reexp_alias_via_pkg", "reexp_star", "dup_short_name", "same_module", "lib_collections", "nested_other_module", "sibling_pkg", "parent_pkg"]
    for tname in c11_targets:
        for pos in (("param", "superclass") if tier == "quick" else ("param", "result", "superclass", "class_attr", "list_arg")):
            if pos == "superclass" and (tname.startswith("builtin") or tname == "lib_unresolvable"):
                continue
            tid += 1
            T = f"{tid:04d}"  # noqa: N806
            files = unit_files(T, tname, [pos])
            ref = targets(T)[tname][2].split(".")[-1]
            units.append({"kind": "c11", "T": T, "files": files, "root": f"{PKG}/u{T}", "modname": f"a{T}", "label": f"c11:{tname}:{pos}", "ref_names": [ref] if re.match(r"^[A-Za-z_]\w*$", ref) and ref not in ("bytes", "complex", "object", "frozenset", "Exception", "range") else None})
    rep.rule = (
        f"{len(units)} base units (C03 trees and C11 user/target trees) x {len(MUTATIONS)} unrelated additions (fresh names; the unit's own declaration names; same module file name; a package re-exporting equally named declarations by name / alias / star; a package named like a declaration; a class named like the referenced class), "
        "each as a run pair base vs mutated over the whole packed package (so cross-unit interference is visible too), plus reversal of the top-level declarations of tree modules; "
        f"Part B: {len(KINDS)} declaration kinds, every (unrelated kind analysed next to an observed kind) pair with the unrelated module on either side, and every ordered pair of kinds inside one module vs the swapped order; distinct = distinct (unit, mutation) resp. (kind, kind, options)"
    )

    base_obs: dict[int, Obs] = {}
    chunks = [units[i : i + 80] for i in range(0, len(units), 80)]
    groups = []
    for ci, chunk in enumerate(chunks):
        groups.append(([("base", ci)], Opts()))
        for mu in MUTATIONS:
            groups.append(([(mu, ci)], Opts()))
        groups.append(([("permute", ci)], Opts()))

    def permuted(u) -> dict[str, str]:
        s: TreeSpec = u["spec"]
        if len(s.letters) < 2:
            return dict(u["files"])
        s2 = build(TreeSpec(s.tid, s.depth, s.mod_private, s.sub_private, tuple(reversed(s.letters)), s.r_root, s.r_sub, s.init_letter, s.sibling, s.shadow))
        return dict(s2.files) if s2 else dict(u["files"])

    def build_pkg(keys):
        what, ci = keys[0]
        files = {f"{PKG}/__init__.py": ""}
        for u in chunks[ci]:
            if what == "permute" and u["kind"] == "tree":
                files.update(permuted(u))
            else:
                files.update(u["files"])
            if what not in ("base", "permute"):
                files.update(mutate(u, what))
        return files, PKG

    pending: dict[int, list] = {}

    def compare(ci: int, what: str, obs: Obs) -> None:
        b = base_obs[ci]
        bs, ms = b.stubs(), obs.stubs()
        for u in chunks[ci]:
            label = f"{u['label']}|{what}"
            rep.case(label, True, sample={"unit": u["label"], "mutation": what, "added": sorted(mutate(u, what)) if what not in ("permute",) else "reversed declarations"} if hash(label) % 977 == 0 else None)
            root = u["root"] + "/"
            mine_b = {k: v for k, v in bs.items() if k.startswith(root)}
            mine_m = {k: v for k, v in ms.items() if k.startswith(root)}
            f2 = {f"{PKG}/__init__.py": ""}
            f2.update(u["files"])
            if what != "permute":
                f2.update(mutate(u, what))
            kind = u["label"].split(":")[0] + ":" + (u["label"].split(":")[1] if u["kind"] == "c11" else u["label"].split("|")[0].split(":", 1)[1] + "|" + "|".join(u["label"].split("|")[-2:]))
            if what == "permute":
                if u["kind"] != "tree":
                    continue
                if set(mine_b) != set(mine_m):
                    rep.violation("permutation-only-permutes", f"permute:file-set|{kind}", {"unit": u["label"], "base_files": sorted(mine_b), "permuted_files": sorted(mine_m)}, files=f2, src_rel=PKG, opts=Opts())
                    continue
                okp = True
                for k in mine_b:
                    a, c = top_level_texts(mine_b[k]), top_level_texts(mine_m[k])
                    if a is None or c is None:
                        continue
                    if a != c:
                        okp = False
                        rep.violation("permutation-only-permutes", f"permute:content|{kind}", {"unit": u["label"], "file": k, "base": mine_b[k][:500], "permuted": mine_m[k][:500]}, files=f2, src_rel=PKG, opts=Opts())
                        break
                if okp:
                    rep.ok("permutation-only-permutes")
                continue
            if mine_b == mine_m:
                rep.ok("unrelated-addition-leaves-stub-identical")
                continue
            diff = sorted(k for k in set(mine_b) | set(mine_m) if mine_b.get(k) != mine_m.get(k))
            k0 = diff[0]
            how = "file-appeared" if k0 not in mine_b else ("file-vanished" if k0 not in mine_m else "content")
            rep.violation(
                "unrelated-addition-leaves-stub-identical", f"{what}:{how}|{kind}",
                {"unit": u["label"], "mutation": what, "added_files": sorted(mutate(u, what)), "files_differ": diff[:4], "base": (mine_b.get(k0) or "")[:500], "mutated": (mine_m.get(k0) or "")[:500]},
                files=f2, src_rel=PKG, opts=Opts(),
            )

    def on_group(keys, opts, obs: Obs, files) -> None:
        what, ci = keys[0]
        if obs.outcome != "completed":
            rep.violation("run-completes", f"run:{obs.outcome}:{obs.crash_sig()}|{what}", {"mutation": what, "exc": obs.exc_type + ": " + obs.exc_msg, "tb": obs.exc_tb[-500:]}, files=files, src_rel=PKG, opts=opts, obs=obs)
            return
        if what == "base":
            base_obs[ci] = obs
            for w2, o2 in pending.pop(ci, []):
                compare(ci, w2, o2)
        elif ci in base_obs:
            compare(ci, what, obs)
        else:
            pending.setdefault(ci, []).append((what, obs))

    stats: dict[str, int] = {}
    run_packed(groups, build_pkg, on_group, stats)

    # ---- Part B: state left behind by the declaration / module analysed just before (adjacency menu) ----
    from ..explore import run_jobs
    from ..driver import job_run_files

    styles = [Opts(), Opts(docstyle="numpydoc")] if tier == "quick" else [Opts(docstyle=d) for d in ("plaintext", "numpydoc", "google", "rest")]
    jobs = []
    for oi, o in enumerate(styles):
        jobs.append((("adj", None, oi), job_run_files, (adjacency_pkg(None), PKG, o)))
        for e in ENDERS:
            jobs.append((("adj", e, oi), job_run_files, (adjacency_pkg(e), PKG, o)))
        jobs.append((("ord", False, oi), job_run_files, (order_pkg(False), PKG, o)))
        jobs.append((("ord", True, oi), job_run_files, (order_pkg(True), PKG, o)))
    got: dict = {}
    run_jobs(jobs, lambda tag, obs: got.__setitem__(tag, obs))
    stats["tool_runs"] = stats.get("tool_runs", 0) + len(jobs)
    realised: set[tuple[str, str]] = set()
    for oi, o in enumerate(styles):
        base = got[("adj", None, oi)]
        for e in ENDERS:
            obs = got[("adj", e, oi)]
            files = adjacency_pkg(e)
            if base.outcome != "completed" or obs.outcome != "completed":
                bad = base if base.outcome != "completed" else obs
                rep.case(f"adj|{e}|{o.key()}", True)
                rep.violation("run-completes", f"run:{bad.outcome}:{bad.crash_sig()}|adjacent:{e}", {"ender": e, "exc": bad.exc_type + ": " + bad.exc_msg, "tb": bad.exc_tb[-500:]}, files=files, src_rel=PKG, opts=o, obs=bad)
                continue
            # which (unrelated, observed) neighbourhoods did the analysis order of this run realise?
            order = [m["id"].split("/")[-1] for m in (obs.api() or {}).get("modules", [])]
            for a, b in zip(order, order[1:], strict=False):
                if b.endswith("b") and not a.endswith("b") and b[:1] == "p":
                    realised.add((e, KINDS[int(b[1:3])]))
            bs, ms = base.stubs(), obs.stubs()
            for j, kind in enumerate(KINDS):
                label = f"adj|{e}|{kind}|{o.key()}"
                rep.case(label, True, sample={"unrelated_kind": e, "observed_kind": kind, "opts": o.key()} if hash(label) % 97 == 0 else None)
                mine_b = {k: v for k, v in bs.items() if f"/p{j:02d}b/" in "/" + k}
                mine_m = {k: v for k, v in ms.items() if f"/p{j:02d}b/" in "/" + k}
                if mine_b == mine_m:
                    rep.ok("unrelated-addition-leaves-stub-identical")
                    continue
                k0 = sorted(k for k in set(mine_b) | set(mine_m) if mine_b.get(k) != mine_m.get(k))[0]
                f2 = {f"{PKG}/__init__.py": "", **{k: v for k, v in files.items() if f"/p{j:02d}" in k}}
                rep.violation(
                    "unrelated-addition-leaves-stub-identical", f"adjacent-unrelated:{e}|observed:{kind}",
                    {"unrelated_kind": e, "observed_kind": kind, "file": k0, "base": (mine_b.get(k0) or "")[:600], "mutated": (mine_m.get(k0) or "")[:600]},
                    files=f2, src_rel=PKG, opts=o,
                )
        fw, rv = got[("ord", False, oi)], got[("ord", True, oi)]
        if fw.outcome != "completed" or rv.outcome != "completed":
            bad = fw if fw.outcome != "completed" else rv
            rep.case(f"ord|{o.key()}", True)
            rep.violation("run-completes", f"run:{bad.outcome}:{bad.crash_sig()}|order-menu", {"exc": bad.exc_type + ": " + bad.exc_msg, "tb": bad.exc_tb[-500:]}, files=order_pkg(fw.outcome == "completed"), src_rel=PKG, opts=o, obs=bad)
            continue
        fs, rs = fw.stubs(), rv.stubs()
        for i, ki in enumerate(KINDS):
            for j, kj in enumerate(KINDS):
                if i == j:
                    continue
                label = f"ord|{ki}|{kj}|{o.key()}"
                rep.case(label, True, sample={"first": ki, "second": kj, "opts": o.key()} if hash(label) % 197 == 0 else None)
                mod = f"q{i:02d}_{j:02d}"
                mine_f = {k: v for k, v in fs.items() if f"/{mod}/" in "/" + k}
                mine_r = {k: v for k, v in rs.items() if f"/{mod}/" in "/" + k}
                same = set(mine_f) == set(mine_r)
                if same:
                    for k in mine_f:
                        a, c = top_level_texts(mine_f[k]), top_level_texts(mine_r[k])
                        if a is not None and c is not None and a != c:
                            same = False
                if same:
                    rep.ok("permutation-only-permutes")
                    continue
                k0 = sorted(set(mine_f) | set(mine_r))[0]
                f2 = {f"{PKG}/__init__.py": "", f"{PKG}/{mod}.py": order_pkg(False)[f"{PKG}/{mod}.py"]}
                rep.violation(
                    "permutation-only-permutes", f"permute-menu:{ki}|{kj}",
                    {"first": ki, "second": kj, "forward": (mine_f.get(k0) or "")[:600], "reversed": (mine_r.get(k0) or "")[:600], "note": "pkg/ holds the forward order; the reversed order swaps the two declarations"},
                    files=f2, src_rel=PKG, opts=o,
                )
    rep.extra["adjacency_kinds"] = len(KINDS)
    rep.extra["adjacent_unrelated_before_observed_realised"] = len(realised)
    rep.extra["adjacent_unrelated_before_observed_possible"] = len(KINDS) * len(KINDS)
    rep.extra.update(stats)
    rep.extra["units"] = len(units)
    rep.extra["uncompared"] = sum(len(v) for v in pending.values())
    rep.assumptions = [
        "an addition is unrelated iff the module under observation does not import it, it defines nothing the module references (equal NAMES are different declarations), and no __init__ on the module's path re-exports it",
        "all stub files below the unit's root directory count as 'the module's stub and the re-export files originating from it'",
    ]
