"""C18 - a module's stub depends only on what the module uses (E1 over run pairs, metamorphic oracle)."""

from __future__ import annotations

import re

from ..driver import Obs, Opts
from ..explore import run_packed
from ..pkg import PKG
from ..report import Report
from ..sds_parser import SdsSyntaxError, parse_stub
from ..tree import TreeSpec, build, enumerate_trees
from .c11 import TARGET_NAMES, targets, unit_files

MUTATIONS = ["add_fresh", "add_same_decl_names", "add_same_module_name", "add_reexporting_pkg_same_names", "add_star_reexport_same_module_name", "add_pkg_named_like_decl", "add_same_referenced_class", "add_alias_reexport_same_names"]


def decl_names(unit) -> list[str]:
    if unit["kind"] == "tree":
        return [g.name for g in unit["spec"].decls if not g.chain][:3] or [f"none{unit['T']}"]
    return [f"f{unit['T']}a", f"K{unit['T']}a"]


def mutate(unit, mu: str) -> dict[str, str]:
    """Files of an UNRELATED addition for this unit (placed in a new sibling package x<T> of the unit's root)."""
    T = unit["T"]  # noqa: N806
    x = f"{PKG}/x{T}"
    names = decl_names(unit)
    cls_src = lambda n: f"class {n}:\n    def um{T}(self, a: int) -> str:\n        return ''\n"  # noqa: E731
    fun_src = lambda n: f"def {n}(z: str, y: str = 'u') -> str:\n    return z\n"  # noqa: E731

    def as_src(n: str) -> str:
        return cls_src(n) if n[0].isupper() or n.lstrip("_")[:1].isupper() else fun_src(n)

    if mu == "add_fresh":
        return {f"{x}/__init__.py": "", f"{x}/um{T}.py": cls_src(f"Fresh{T}") + "\n\n" + fun_src(f"fresh{T}")}
    if mu == "add_same_decl_names":
        return {f"{x}/__init__.py": "", f"{x}/um{T}.py": "\n\n".join(as_src(n) for n in names)}
    if mu == "add_same_module_name":
        return {f"{x}/__init__.py": "", f"{x}/{unit['modname']}.py": cls_src(f"Fresh{T}")}
    if mu == "add_reexporting_pkg_same_names":
        pub = [n for n in names if not n.startswith("_")] or [f"Fresh{T}"]
        return {f"{x}/__init__.py": "".join(f"from ._u{T} import {n}\n" for n in pub), f"{x}/_u{T}.py": "\n\n".join(as_src(n) for n in pub)}
    if mu == "add_star_reexport_same_module_name":
        return {f"{x}/__init__.py": f"from .{unit['modname']} import *\n", f"{x}/{unit['modname']}.py": cls_src(f"Fresh{T}")}
    if mu == "add_pkg_named_like_decl":
        n = next((n for n in names if not n.startswith("_")), f"fresh{T}")
        return {f"{x}/__init__.py": "", f"{x}/{n}/__init__.py": "", f"{x}/{n}/{n}.py": fun_src(f"inner{T}")}
    if mu == "add_same_referenced_class":
        ref = unit.get("ref_names") or [f"Fresh{T}"]
        return {f"{x}/__init__.py": "", f"{x}/um{T}.py": "\n\n".join(cls_src(n) for n in ref)}
    if mu == "add_alias_reexport_same_names":
        pub = [n for n in names if not n.startswith("_")] or [f"Fresh{T}"]
        return {f"{x}/__init__.py": f"from ._u{T} import Other{T} as {pub[0]}\n", f"{x}/_u{T}.py": cls_src(f"Other{T}")}
    raise AssertionError(mu)


def top_level_texts(stub: str) -> tuple[str, list[str]] | None:
    """(header incl. imports, sorted list of top-level declaration texts) of a stub, split on blank lines at depth 0."""
    try:
        m = parse_stub(stub)
    except SdsSyntaxError:
        return None
    lines = stub.split("\n")
    starts = []
    for d in m.decls:
        ln = min([d.line] + [c[2] for c in d.comments])
        starts.append(ln - 1)
    if not starts:
        return stub, []
    # annotations precede the keyword line: move each start up over annotation / comment lines
    for i, s in enumerate(starts):
        while s > 0 and lines[s - 1].strip() and not lines[s - 1].startswith(("package", "from ")):
            s -= 1
        starts[i] = s
    starts = sorted(set(starts))
    header = "\n".join(lines[: starts[0]])
    chunks = []
    for a, b in zip(starts, [*starts[1:], len(lines)], strict=True):
        chunks.append("\n".join(lines[a:b]).strip("\n"))
    return header.strip("\n"), sorted(chunks)


def run(rep: Report, tier: str, seed: int) -> None:
    units = []
    specs = enumerate_trees("quick")
    specs = specs[:: (7 if tier == "quick" else 2)]
    for s in specs:
        modname = ("_" if s.mod_private else "") + f"m{s.T}"
        units.append({"kind": "tree", "T": s.T, "spec": s, "files": dict(s.files), "root": f"{PKG}/t{s.T}", "modname": modname, "label": "tree:" + s.label})
    tid = 9000
    c11_targets = TARGET_NAMES if tier == "thorough" else ["sibling_rel", "sibling_abs", "reexp_name_via_pkg", "reexp_alias_via_pkg", "reexp_star", "dup_short_name", "same_module", "lib_collections", "nested_other_module", "sibling_pkg", "parent_pkg"]
    for tname in c11_targets:
        for pos in (("param", "superclass") if tier == "quick" else ("param", "result", "superclass", "class_attr", "list_arg")):
            if pos == "superclass" and (tname.startswith("builtin") or tname == "lib_unresolvable"):
                continue
            tid += 1
            T = f"{tid:04d}"  # noqa: N806
            files = unit_files(T, tname, [pos])
            ref = targets(T)[tname][2].split(".")[-1]
            units.append({"kind": "c11", "T": T, "files": files, "root": f"{PKG}/u{T}", "modname": f"a{T}", "label": f"c11:{tname}:{pos}", "ref_names": [ref] if re.match(r"^[A-Za-z_]\w*$", ref) and ref not in ("bytes", "complex", "object", "frozenset", "Exception", "range") else None})
    rep.rule = (
        f"{len(units)} base units (C03 trees and C11 user/target trees) x {len(MUTATIONS)} unrelated additions (fresh names; the unit's own declaration names; same module file name; a package re-exporting equally named declarations by name / alias / star; a package named like a declaration; a class named like the referenced class), "
        "each as a run pair base vs mutated over the whole packed package (so cross-unit interference is visible too), plus reversal of the top-level declarations of tree modules; distinct = distinct (unit, mutation)"
    )

    base_obs: dict[int, Obs] = {}
    chunks = [units[i : i + 80] for i in range(0, len(units), 80)]
    groups = []
    for ci, chunk in enumerate(chunks):
        groups.append(([("base", ci)], Opts()))
        for mu in MUTATIONS:
            groups.append(([(mu, ci)], Opts()))
        groups.append(([("permute", ci)], Opts()))

    def permuted(u) -> dict[str, str]:
        s: TreeSpec = u["spec"]
        if len(s.letters) < 2:
            return dict(u["files"])
        s2 = build(TreeSpec(s.tid, s.depth, s.mod_private, s.sub_private, tuple(reversed(s.letters)), s.r_root, s.r_sub, s.init_letter, s.sibling))
        return dict(s2.files) if s2 else dict(u["files"])

    def build_pkg(keys):
        what, ci = keys[0]
        files = {f"{PKG}/__init__.py": ""}
        for u in chunks[ci]:
            if what == "permute" and u["kind"] == "tree":
                files.update(permuted(u))
            else:
                files.update(u["files"])
            if what not in ("base", "permute"):
                files.update(mutate(u, what))
        return files, PKG

    pending: dict[int, list] = {}

    def compare(ci: int, what: str, obs: Obs) -> None:
        b = base_obs[ci]
        bs, ms = b.stubs(), obs.stubs()
        for u in chunks[ci]:
            label = f"{u['label']}|{what}"
            rep.case(label, True, sample={"unit": u["label"], "mutation": what, "added": sorted(mutate(u, what)) if what not in ("permute",) else "reversed declarations"} if hash(label) % 977 == 0 else None)
            root = u["root"] + "/"
            mine_b = {k: v for k, v in bs.items() if k.startswith(root)}
            mine_m = {k: v for k, v in ms.items() if k.startswith(root)}
            f2 = {f"{PKG}/__init__.py": ""}
            f2.update(u["files"])
            if what != "permute":
                f2.update(mutate(u, what))
            kind = u["label"].split(":")[0] + ":" + (u["label"].split(":")[1] if u["kind"] == "c11" else u["label"].split("|")[0].split(":", 1)[1] + "|" + "|".join(u["label"].split("|")[-2:]))
            if what == "permute":
                if u["kind"] != "tree":
                    continue
                if set(mine_b) != set(mine_m):
                    rep.violation("permutation-only-permutes", f"permute:file-set|{kind}", {"unit": u["label"], "base_files": sorted(mine_b), "permuted_files": sorted(mine_m)}, files=f2, src_rel=PKG, opts=Opts())
                    continue
                okp = True
                for k in mine_b:
                    a, c = top_level_texts(mine_b[k]), top_level_texts(mine_m[k])
                    if a is None or c is None:
                        continue
                    if a != c:
                        okp = False
                        rep.violation("permutation-only-permutes", f"permute:content|{kind}", {"unit": u["label"], "file": k, "base": mine_b[k][:500], "permuted": mine_m[k][:500]}, files=f2, src_rel=PKG, opts=Opts())
                        break
                if okp:
                    rep.ok("permutation-only-permutes")
                continue
            if mine_b == mine_m:
                rep.ok("unrelated-addition-leaves-stub-identical")
                continue
            diff = sorted(k for k in set(mine_b) | set(mine_m) if mine_b.get(k) != mine_m.get(k))
            k0 = diff[0]
            how = "file-appeared" if k0 not in mine_b else ("file-vanished" if k0 not in mine_m else "content")
            rep.violation(
                "unrelated-addition-leaves-stub-identical", f"{what}:{how}|{kind}",
                {"unit": u["label"], "mutation": what, "added_files": sorted(mutate(u, what)), "files_differ": diff[:4], "base": (mine_b.get(k0) or "")[:500], "mutated": (mine_m.get(k0) or "")[:500]},
                files=f2, src_rel=PKG, opts=Opts(),
            )

    def on_group(keys, opts, obs: Obs, files) -> None:
        what, ci = keys[0]
        if obs.outcome != "completed":
            rep.violation("run-completes", f"run:{obs.outcome}:{obs.crash_sig()}|{what}", {"mutation": what, "exc": obs.exc_type + ": " + obs.exc_msg, "tb": obs.exc_tb[-500:]}, files=files, src_rel=PKG, opts=opts, obs=obs)
            return
        if what == "base":
            base_obs[ci] = obs
            for w2, o2 in pending.pop(ci, []):
                compare(ci, w2, o2)
        elif ci in base_obs:
            compare(ci, what, obs)
        else:
            pending.setdefault(ci, []).append((what, obs))

    stats: dict[str, int] = {}
    run_packed(groups, build_pkg, on_group, stats)
    rep.extra.update(stats)
    rep.extra["units"] = len(units)
    rep.extra["uncompared"] = sum(len(v) for v in pending.values())
    rep.assumptions = [
        "an addition is unrelated iff the module under observation does not import it, it defines nothing the module references (equal NAMES are different declarations), and no __init__ on the module's path re-exports it",
        "all stub files below the unit's root directory count as 'the module's stub and the re-export files originating from it'",
    ]
