"""C19 - API type values obey round-trip, equality and hashing laws.

E1: bounded-exhaustive enumeration of type terms over the 14 constructors (DESIGN.md 6/C19) and of pairs of terms;
every law is evaluated on every term / pair by calling the real to_dict / from_dict / __eq__ / __hash__.
"""

from __future__ import annotations

import itertools
import json

from ..report import Report


def _leaves(t):
    B = t.BoundaryType
    return [
        ("Unknown", lambda: t.UnknownType()),
        ("Named:int", lambda: t.NamedType("int", "builtins.int")),
        ("Named:A", lambda: t.NamedType("A", "pk.m.A")),
        ("Enum:0", lambda: t.EnumType(frozenset())),
        ("Enum:1", lambda: t.EnumType(frozenset({"a"}), "{'a'}")),
        ("Enum:2", lambda: t.EnumType(frozenset({"a", "b"}))),
        ("Bnd:c01", lambda: B("float", 0.0, 1.0, True, True)),
        ("Bnd:o01", lambda: B("float", 0.0, 1.0, False, False)),
        ("Bnd:cInfC", lambda: B("float", 0.0, B.INFINITY, True, True)),
        ("Bnd:cInfO", lambda: B("float", 0.0, B.INFINITY, True, False)),
        ("Bnd:NegInf", lambda: B("int", B.NEGATIVE_INFINITY, 1, False, True)),
        ("Lit:1", lambda: t.LiteralType([1])),
        ("Lit:aT", lambda: t.LiteralType(["a", True])),
        ("Lit:1N", lambda: t.LiteralType([1, None])),
        ("TVar:T", lambda: t.TypeVarType("T")),
        ("TVar:U", lambda: t.TypeVarType("U")),
    ]


def _families(t) -> dict[str, list]:
    """Leaf constructors with every combination of their fields (labels 'Fam<ctor>:<fields>')."""
    B = t.BoundaryType  # noqa: N806
    fam: dict[str, list] = {"Bnd": [], "Lit": [], "Enum": [], "Named": [], "TVar": []}
    for base, lo, hi, li, hi_i in itertools.product(("int", "float"), (B.NEGATIVE_INFINITY, 0), (1, B.INFINITY), (False, True), (False, True)):
        lab = f"Bnd:{base}{'c' if li else 'o'}{'NegInf' if lo == B.NEGATIVE_INFINITY else '0'}to{'Inf' if hi == B.INFINITY else '1'}{'c' if hi_i else 'o'}"
        fam["Bnd"].append((lab, lambda base=base, lo=lo, hi=hi, li=li, hi_i=hi_i: B(base, lo, hi, li, hi_i)))
    values = [1, True, "1", None, 1.5, 0, False]
    names = {1: "i1", True: "T", "1": "s1", None: "N", 1.5: "f", 0: "i0", False: "F"}
    reprs = ["i1", "T", "s1", "N", "f", "i0", "F"]
    for i, v in enumerate(values):
        fam["Lit"].append((f"Lit:fam{reprs[i]}", lambda v=v: t.LiteralType([v])))
    for (i, v), (j, w) in itertools.permutations(list(enumerate(values)), 2):
        fam["Lit"].append((f"Lit:fam{reprs[i]}{reprs[j]}", lambda v=v, w=w: t.LiteralType([v, w])))
    del names
    for vals in (frozenset(), frozenset({"a"}), frozenset({"b"}), frozenset({"a", "b"})):
        for fm in ("", "{'a'}", "x"):
            fam["Enum"].append((f"Enum:fam{''.join(sorted(vals)) or 'e'}{len(fm)}", lambda vals=vals, fm=fm: t.EnumType(vals, fm)))
    for n, q in (("A", "pk.m.A"), ("A", "pk.n.A"), ("B", "pk.m.A"), ("A", ""), ("int", "builtins.int")):
        fam["Named"].append((f"Named:fam{n}{len(q)}{q[3:4]}", lambda n=n, q=q: t.NamedType(n, q)))
    for n in ("T", "U"):
        fam["TVar"].append((f"TVar:fam{n}", lambda n=n: t.TypeVarType(n)))
        fam["TVar"].append((f"TVar:fam{n}int", lambda n=n: t.TypeVarType(n, t.NamedType("int", "builtins.int"))))
        fam["TVar"].append((f"TVar:fam{n}A", lambda n=n: t.TypeVarType(n, t.NamedType("A", "pk.m.A"))))
    return fam


def _constructors(t):
    """(name, arities, build(children))"""
    return [
        ("NamedSeq", (0, 1, 2), lambda ch: t.NamedSequenceType("G", "pk.m.G", list(ch))),
        ("List", (0, 1, 2), lambda ch: t.ListType(list(ch))),
        ("Set", (0, 1, 2), lambda ch: t.SetType(list(ch))),
        ("Tuple", (0, 1, 2), lambda ch: t.TupleType(list(ch))),
        ("Union", (0, 1, 2), lambda ch: t.UnionType(list(ch))),
        ("Dict", (2,), lambda ch: t.DictType(ch[0], ch[1])),
        ("Callable", (1, 2, 3), lambda ch: t.CallableType(list(ch[:-1]), ch[-1])),
        ("Final", (1,), lambda ch: t.FinalType(ch[0])),
        ("TVarB", (1,), lambda ch: t.TypeVarType("T", ch[0])),
    ]


def enumerate_terms(t, tier: str):
    """Yield (label, thunk) simplest first.  label is a canonical description of the term's shape."""
    leaves = _leaves(t)
    for lab, mk in leaves:
        yield lab, mk, 0
    cons = _constructors(t)
    d1: list[tuple[str, object]] = []
    for cname, arities, build in cons:
        for ar in arities:
            # quick: callables with two parameters over the first five leaves only
            pool = leaves[:5] if (cname == "Callable" and ar == 3 and tier == "quick") else leaves
            for combo in itertools.product(pool, repeat=ar):
                lab = f"{cname}({', '.join(c[0] for c in combo)})"
                mk = (lambda build=build, combo=combo: build([c[1]() for c in combo]))
                d1.append((lab, mk))
                yield lab, mk, 1
    # depth 2: inner arity <= 1 for thorough (every depth-1 term of arity<=1 as a child), quick: a fixed slice
    small_d1 = [(lab, mk) for lab, mk in d1 if lab.count(",") == 0]
    kids = leaves + small_d1
    if tier == "quick":
        # every constructor over every constructor once (unary/nullary inner), with two leaf choices
        kids = leaves[:3] + [x for x in small_d1 if any(x[0].endswith(f"({l})") for l in ("Named:int", "Lit:1", "Enum:1", "Bnd:cInfC", "TVar:T")) or x[0].endswith("()")]
    for cname, arities, build in cons:
        for ar in arities:
            if ar == 0 or (cname == "Callable" and ar == 3):
                continue
            if ar == 1:
                combos = [(k,) for k in small_d1 if k in kids or tier == "thorough"]
            else:
                # one depth-1 child and one leaf, in both orders
                inner = [k for k in kids if k in small_d1] if tier == "quick" else small_d1
                lv = leaves[:4] if tier == "quick" else leaves
                combos = [(a, b) for a in inner for b in lv] + [(b, a) for a in inner for b in lv]
            for combo in combos:
                lab = f"{cname}({', '.join(c[0] for c in combo)})"
                mk = (lambda build=build, combo=combo: build([c[1]() for c in combo]))
                yield lab, mk, 2


_FAILED: dict[str, str] = {}  # term label -> label of the smallest failing subterm (root culprit)


def _children(lab: str) -> list[str]:
    if "(" not in lab:
        return []
    inner = lab[lab.index("(") + 1 : -1]
    out, depth, cur = [], 0, ""
    for ch in inner:
        if ch == "(" or ch == "[":
            depth += 1
        elif ch == ")" or ch == "]":
            depth -= 1
        if ch == "," and depth == 0:
            out.append(cur.strip())
            cur = ""
        else:
            cur += ch
    if cur.strip():
        out.append(cur.strip())
    return out


def _culprit(lab: str) -> str:
    for side in lab.split(" ~ "):
        for ch in _children(side):
            if ch in _FAILED:
                return _FAILED[ch]
            c = _culprit(ch)
            if c != ch:
                return c
    return lab


def _sigshape(lab: str) -> str:
    """Constructor shape of a label: leaf parameters dropped ('Named:int' -> 'Named')."""
    import re

    return re.sub(r":\w+", "", lab)


def _law(rep: Report, clause: str, ok: bool, lab: str, detail: dict) -> None:
    if ok:
        rep.ok(clause)
    else:
        culprit = _culprit(lab)
        if " ~ " not in lab:
            _FAILED.setdefault(lab, culprit)
        rep.violation(clause, f"{clause}:{_sigshape(culprit)}", {"term": lab, "culprit": culprit, **detail})


def run(rep: Report, tier: str, seed: int) -> None:
    import safeds_stubgen.api_analyzer._types as t

    A = t.AbstractType
    rep.rule = (
        "all type terms over 16 leaves and 9 composite constructors: depth<=1 complete (arity<=2, callable<=2 params"
        " [quick] / <=3 [thorough]); depth 2 with unary inner terms (slice in quick, complete in thorough); all ordered"
        " pairs of depth<=1 terms within one constructor class plus all cross-class leaf pairs; leaf families (all 32 BoundaryType field combinations, 49 one/two-value literals over {1,True,'1',None,1.5,0,False}, 12 enums, 5 named, 6 type variables)"
        " with the single-term laws and all ordered pairs inside each family; distinct = distinct term label"
    )
    terms = []

    def single(lab, mk, depth) -> None:  # noqa: ANN001
        rep.case(lab, True, sample=lab if depth == 1 and len(rep.samples) < 4 else None)
        x = mk()
        # (3) reflexive
        try:
            _law(rep, "eq-reflexive", x == x and x == mk(), lab, {})
        except Exception as e:  # noqa: BLE001
            _law(rep, "eq-reflexive", False, lab, {"exception": repr(e)})
        # (4) hash defined
        try:
            hash(x)
            hash_ok = True
        except Exception as e:  # noqa: BLE001
            hash_ok = False
            _law(rep, "hash-total", False, lab, {"exception": repr(e)})
        if hash_ok:
            rep.ok("hash-total")
            try:
                _law(rep, "hash-stable", hash(x) == hash(mk()), lab, {})
            except Exception as e:  # noqa: BLE001
                _law(rep, "hash-stable", False, lab, {"exception": repr(e)})
        # (1) round trip, (2) re-serialisation
        try:
            d = x.to_dict()
        except Exception as e:  # noqa: BLE001
            _law(rep, "to_dict-total", False, lab, {"exception": repr(e)})
            return
        rep.ok("to_dict-total")
        try:
            y = A.from_dict(d)
        except Exception as e:  # noqa: BLE001
            _law(rep, "roundtrip-eq", False, lab, {"exception": repr(e), "dict": repr(d)[:300]})
            return
        try:
            _law(rep, "roundtrip-eq", y == x and x == y, lab, {"dict": repr(d)[:300], "parsed": repr(y)[:300]})
        except Exception as e:  # noqa: BLE001
            _law(rep, "roundtrip-eq", False, lab, {"exception": repr(e)})
        try:
            d2 = y.to_dict()
            _law(rep, "roundtrip-dict", d2 == d, lab, {"dict": repr(d)[:300], "dict2": repr(d2)[:300]})
        except Exception as e:  # noqa: BLE001
            _law(rep, "roundtrip-dict", False, lab, {"exception": repr(e)})
        try:
            hy = hash(y)
            if hash_ok:
                _law(rep, "roundtrip-hash", hy == hash(x), lab, {})
        except Exception as e:  # noqa: BLE001
            _law(rep, "roundtrip-hash", False, lab, {"exception": repr(e)})
        # (8) JSON-serialisable (the API file is written with json.dump)
        try:
            json.dumps(d)
            rep.ok("json-serialisable")
        except Exception as e:  # noqa: BLE001
            _law(rep, "json-serialisable", False, lab, {"exception": repr(e)})

    for lab, mk, depth in enumerate_terms(t, tier):
        terms.append((lab, mk, depth))
        single(lab, mk, depth)

    # pairs
    shallow = [(lab, mk) for lab, mk, depth in terms if depth <= 1]
    by_class: dict[str, list] = {}
    for lab, mk in shallow:
        by_class.setdefault(lab.split("(")[0].split(":")[0], []).append((lab, mk, mk()))
    leaves_only = [(lab, mk, mk()) for lab, mk, depth in terms if depth == 0]
    npairs = 0

    def pair(la, a, lb, b) -> None:
        nonlocal npairs
        npairs += 1
        plab = f"{la} ~ {lb}"
        try:
            ab, ba = (a == b), (b == a)
        except Exception as e:  # noqa: BLE001
            _law(rep, "eq-symmetric", False, plab, {"exception": repr(e)})
            return
        _law(rep, "eq-symmetric", ab == ba, plab, {"a==b": ab, "b==a": ba})
        if ab:
            try:
                _law(rep, "eq-implies-hash", hash(a) == hash(b), plab, {})
            except TypeError:
                pass  # unhashable is reported by hash-total

    for cls, items in by_class.items():
        for (la, _, a), (lb, _, b) in itertools.product(items, repeat=2):
            pair(la, a, lb, b)
    for (la, _, a), (lb, _, b) in itertools.product(leaves_only, repeat=2):
        if la.split(":")[0] != lb.split(":")[0]:
            pair(la, a, lb, b)
    # leaf families: every combination of the fields of one leaf constructor, single laws + all ordered pairs within the family
    fam_terms = 0
    for fam, members in _families(t).items():
        built = []
        for lab, mk in members:
            single(lab, mk, 0)
            built.append((lab, mk()))
            fam_terms += 1
        for (la, a), (lb, b) in itertools.product(built, repeat=2):
            pair(la, a, lb, b)
    rep.extra["family_terms"] = fam_terms
    # (7) order-insensitive equality implies order-insensitive hash: [a,b] vs [b,a] are in the same class above, so
    # eq-implies-hash covers it; count how many such permuted pairs were equal to show the clause is not vacuous
    rep.extra["pairs_compared"] = npairs
    rep.extra["terms"] = len(terms)
    rep.evaluations += npairs
    rep.assumptions = ["terms are built through the public constructors of safeds_stubgen.api_analyzer._types in /repo/src"]
