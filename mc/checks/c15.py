"""C15 - the test-run flag alone controls whether test and docs directories are analysed (E1 over run pairs)."""

from __future__ import annotations

import itertools

from ..driver import Obs, Opts
from ..explore import run_packed
from ..pkg import PKG, api_index
from ..report import Report

DIRS = ["test", "tests", "docs", "testing", "mytests", "test_x", "docs_old", "Tests", "src", "Docs", "tests2"]
EXCLUDED = {"test", "tests", "docs"}
FILES = ["m", "test_m", "tests", "docs", "test", "conftest"]


class Tree:
    def __init__(self, tid: int, dirs: list[tuple[tuple[str, ...], bool]], fname: str, imported: bool | str = False):
        """dirs: list of (path below tree root, has __init__).  imported: the package __init__ of each special directory
        defines a function and the ordinary module imports it (which pulls that __init__ into the type checker's graph)."""
        self.tid = tid
        self.T = f"{tid:04d}"
        self.label = "+".join("/".join(p) + ("" if init else "(no-init)") for p, init in dirs) + f":{fname}.py" + (":imported-module" if imported == "module" else (":imported-class" if imported == "class" else (":imported-init" if imported else "")))
        self.files: dict[str, str] = {}
        self.expect: list[tuple[str, bool]] = []  # (function name, excluded without flag)
        root = f"{PKG}/t{self.T}"
        self.files[f"{root}/__init__.py"] = ""
        self.files[f"{root}/ord{self.T}.py"] = f"def ordf{self.T}(a: int) -> int:\n    return a\n\n\nclass OrdC{self.T}:\n    def om(self) -> int:\n        return 1\n"
        self.expect.append((f"ordf{self.T}", False))
        k = 0
        for path, init in dirs:
            # every directory on the path gets an __init__ except (optionally) the innermost
            for i in range(1, len(path) + 1):
                if i < len(path) or init:
                    self.files[f"{root}/{'/'.join(path[:i])}/__init__.py"] = ""
            # files in directories without __init__ are top-level modules for mypy: their names must be unique
            fn = fname if init and fname in ("tests", "docs", "test") else f"{fname}{self.T}{k}"
            func = f"fn{self.T}{k}"
            self.files[f"{root}/{'/'.join(path)}/{fn}.py"] = f"def {func}(a: int) -> int:\n    return a\n"
            self.expect.append((func, any(seg in EXCLUDED for seg in path)))
            if imported == "class" and init:
                # the ordinary module uses a CLASS of the module inside the special directory as type and superclass
                pkg_dotted = f"{PKG}.t{self.T}." + ".".join(path)
                cname = f"Helper{self.T}{k}"
                self.files[f"{root}/{'/'.join(path)}/{fn}.py"] += f"\n\nclass {cname}:\n    def hm{self.T}{k}(self) -> int:\n        return 1\n"
                self.files[f"{root}/ord{self.T}.py"] = f"from {pkg_dotted}.{fn} import {cname}\n\n\n" + self.files[f"{root}/ord{self.T}.py"] + f"\n\ndef uses{self.T}{k}(h: {cname}) -> {cname}:\n    return h\n"
                self.expect.append((f"hm{self.T}{k}", any(seg in EXCLUDED for seg in path)))
            elif imported == "module" and init:
                # the ordinary module imports a function of the MODULE inside the special directory (this pulls that
                # module into the type checker's graph although it is not among the analysed files)
                pkg_dotted = f"{PKG}.t{self.T}." + ".".join(path)
                self.files[f"{root}/ord{self.T}.py"] = f"from {pkg_dotted}.{fn} import {func}\n\n\n" + self.files[f"{root}/ord{self.T}.py"]
            elif imported and init:
                ifn = f"initfn{self.T}{k}"
                pkg_dotted = f"{PKG}.t{self.T}." + ".".join(path)
                self.files[f"{root}/{'/'.join(path)}/__init__.py"] = f"def {ifn}(a: int) -> int:\n    return a\n\n\nclass InitCls{self.T}{k}:\n    def im(self) -> int:\n        return 1\n"
                self.files[f"{root}/ord{self.T}.py"] = f"from {pkg_dotted} import {ifn}\n\n\n" + self.files[f"{root}/ord{self.T}.py"]
                self.expect.append((ifn, any(seg in EXCLUDED for seg in path)))
            k += 1


def enumerate_trees(tier: str) -> list[Tree]:
    out: list[Tree] = []
    tid = itertools.count(1)
    for d in DIRS:
        for depth in (1, 2):
            for fname in FILES:
                for init in (True, False):
                    path = (d,) if depth == 1 else (f"mid{next(tid):04d}", d)
                    out.append(Tree(next(tid), [(path, init)], fname))
    for d in DIRS:
        for depth in (1, 2):
            path = (d,) if depth == 1 else (f"mid{next(tid):04d}", d)
            out.append(Tree(next(tid), [(path, True)], "m", imported=True))
            for fname in ("m", "conftest", "test_m"):
                out.append(Tree(next(tid), [(path, True)], fname, imported="module"))
            out.append(Tree(next(tid), [(path, True)], "m", imported="class"))
    if tier == "thorough":
        for d1, d2 in itertools.product(DIRS, repeat=2):
            for init in (True, False):
                out.append(Tree(next(tid), [((d1, d2), init)], "m"))  # nested
                if d1 < d2:
                    out.append(Tree(next(tid), [((d1,), init), ((d2,), True)], "m"))  # siblings
    else:
        for d1, d2 in [("test", "src"), ("src", "test"), ("tests", "docs"), ("testing", "tests"), ("docs", "mytests"), ("Tests", "docs_old")]:
            out.append(Tree(next(tid), [((d1, d2), True)], "m"))
            out.append(Tree(next(tid), [((d1,), True), ((d2,), True)], "m"))
    return out


def run(rep: Report, tier: str, seed: int) -> None:
    trees = enumerate_trees(tier)
    rep.rule = (
        "11 directory names (test, tests, docs + 8 look-alikes) at depth 1 and 2 x 6 file names x with/without __init__.py; two special directories nested and as siblings"
        + (" (all ordered pairs)" if tier == "thorough" else " (6 pairs)")
        + "; every tree analysed with the flag off and on (two runs per packed group); distinct = distinct tree label"
    )
    results: dict[tuple[int, bool], tuple[Obs, dict]] = {}
    groups = []
    per = 60
    chunks = [trees[i : i + per] for i in range(0, len(trees), per)]
    for ci, chunk in enumerate(chunks):
        for tr in (False, True):
            groups.append(([(ci, t) for t in chunk], Opts(testrun=tr)))

    def build(units):
        files = {f"{PKG}/__init__.py": ""}
        for _, t in units:
            files.update(t.files)
        return files, PKG

    pending: dict[int, dict[bool, tuple]] = {}

    def judge_pair(chunk, off: Obs, on: Obs) -> None:
        api_off, api_on = api_index(off), api_index(on)
        fn_off = {fid.rsplit("/", 1)[-1]: fid for fid in api_off.get("functions", {})}
        fn_on = {fid.rsplit("/", 1)[-1]: fid for fid in api_on.get("functions", {})}
        stubs_off, stubs_on = off.stubs(), on.stubs()
        text_off = "\n".join(stubs_off.values())
        text_on = "\n".join(stubs_on.values())
        for t in chunk:
            rep.case(t.label, True, sample={"tree": t.label, "files": sorted(t.files)} if t.tid % 97 == 0 else None)

            def viol(clause, feat, detail, t=t) -> None:
                f2 = {f"{PKG}/__init__.py": ""}
                f2.update(t.files)
                rep.violation(clause, f"{clause}:{feat}|{t.label}", {"tree": t.label, **detail}, files=f2, src_rel=PKG, opts=Opts(testrun=clause.startswith("flag-on")))

            for func, excluded in t.expect:
                in_off = func in fn_off or f"fun {func}(" in text_off
                # functions defined in a package __init__ never reach a stub (C03's finding): judged on the API JSON only
                in_on = func in fn_on and (func.startswith("initfn") or f"fun {func}(" in text_on)
                if excluded:
                    if in_off:
                        viol("flag-off-excludes", "leaked", {"function": func, "api_id": fn_off.get(func)})
                    else:
                        rep.ok("flag-off-excludes")
                else:
                    if not (func in fn_off and (func.startswith("initfn") or f"fun {func}(" in text_off)):
                        viol("flag-off-keeps-others", "missing", {"function": func})
                    else:
                        rep.ok("flag-off-keeps-others")
                if not in_on:
                    viol("flag-on-includes-all", "missing", {"function": func, "in_api": func in fn_on})
                else:
                    rep.ok("flag-on-includes-all")
            # no module id / stub path with an excluded directory segment below the tree root when the flag is off
            # (the last segment of a module id is the file's own name unless the entry is a package __init__)
            file_modules = {mid for mid, e in api_off.get("modules", {}).items() if e.get("name") != "__init__"}
            for mid in api_off.get("modules", {}):
                segs = mid.split("/")
                dirs = segs[:-1] if mid in file_modules else segs
                if f"t{t.T}" in dirs and any(s in EXCLUDED for s in dirs[dirs.index(f"t{t.T}") + 1 :]):
                    viol("flag-off-excludes", "module-id", {"module": mid})
            for p in stubs_off:
                segs = p.split("/")[:-1]
                dirs = segs[:-1] if "/".join(segs) in file_modules else segs
                if f"t{t.T}" in dirs and any(s in EXCLUDED for s in dirs[dirs.index(f"t{t.T}") + 1 :]):
                    viol("flag-off-excludes", "stub-path", {"stub": p})
            # files outside such directories: identical API entries and stub under both flag values
            key = f"{PKG}/t{t.T}/ord{t.T}"
            e_off = {k: v for lst in api_off.values() for k, v in lst.items() if k == key or k.startswith(key + "/")}
            e_on = {k: v for lst in api_on.values() for k, v in lst.items() if k == key or k.startswith(key + "/")}
            s_off = stubs_off.get(f"{key}/ord{t.T}.sdsstub")
            s_on = stubs_on.get(f"{key}/ord{t.T}.sdsstub")
            if e_off != e_on or s_off != s_on or s_off is None:
                viol("flag-irrelevant-elsewhere", "differs", {"stub_off": s_off, "stub_on": s_on})
            else:
                rep.ok("flag-irrelevant-elsewhere")

    def on_group(units, opts, obs: Obs, files) -> None:
        if obs.outcome != "completed":
            for _, t in units:
                rep.case(t.label)
                f2 = {f"{PKG}/__init__.py": ""}
                f2.update(t.files)
                rep.violation("run-completes", f"run:{obs.outcome}:{obs.crash_sig()}|{'on' if opts.testrun else 'off'}|{t.label}", {"tree": t.label, "exc": obs.exc_type + ": " + obs.exc_msg, "tb": obs.exc_tb[-400:]}, files=f2, src_rel=PKG, opts=opts, obs=obs)
            return
        ci = units[0][0]
        key = (ci, tuple(t.tid for _, t in units))
        slot = pending.setdefault(key, {})
        slot[opts.testrun] = (obs, [t for _, t in units])
        if len(slot) == 2:
            judge_pair(slot[False][1], slot[False][0], slot[True][0])
            del pending[key]

    stats: dict[str, int] = {}
    run_packed(groups, build, on_group, stats)
    rep.extra.update(stats)
    rep.extra["trees"] = len(trees)
    rep.extra["unpaired_groups"] = len(pending)
    rep.assumptions = [
        "a file is 'located in a directory named test, tests or docs' iff one of its directory segments below the package root is exactly that name (case-sensitive)",
        "scratch roots contain no such segment above the package (the tool looks at absolute path parts)",
    ]
