"""C16 - stub generation neither mutates the API model nor depends on earlier generations.

Part A (E2): breadth-first search over operation histories on ONE real API object + StubsStringGenerator + output dir.
  events: G_i = generator(module_i), R = create_reexport_module_strings, D = generate_stub_data, F = create_stub_files,
          N = replace the generator by a new one over the same API
  every history is replayed on a deepcopy of the pristine API; states are deduplicated on a canonical form of
  (api.to_dict(), generator scratch fields, output directory digest).
  invariants: (1) api.to_dict() == pristine after every event; (2) every G_i / D / R returns what it returns as the
  first event on a pristine copy; (3) after D;F the directory equals the single-run directory; (4) one inherited method
  renders identically in every subclass that shows it.
Part B (L0): the console script twice into one output directory (mypy cache left in place) and into a dirty one.
"""

from __future__ import annotations

import copy
import hashlib
import json
import shutil
from collections import deque
from pathlib import Path

from ..driver import Opts, fresh_dir, read_tree, run_cli, write_tree
from ..explore import run_jobs
from ..report import Report
from ..sds_parser import SdsSyntaxError, parse_stub

INPUTS: dict[str, dict[str, str]] = {
    "literals-inherited": {
        "pa/__init__.py": "",
        "pa/m1.py": (
            "from typing import Literal\n\n\n"
            "class _P:\n    def lit1(self, k: Literal['a'] | None = None) -> Literal[1, 2] | None:\n        ...\n\n"
            "    def lit2(self, k: Literal[1] | None) -> None:\n        ...\n\n"
            "    def lit3(self, k: Literal['x', 'y', 'z'], *args: int, **kwargs: str) -> int:\n        ...\n\n\n"
            "class S1(_P):\n    def own(self) -> int:\n        ...\n\n\nclass S2(_P):\n    pass\n\n\nclass S3(S1):\n    pass\n"
        ),
        "pa/m2.py": "from typing import Literal\n\n\ndef f(a: Literal[1] | None, b: Literal['q'] | None = None, *args: int) -> Literal[True] | None:\n    ...\n\n\ndef g(a, *b, **c):\n    pass\n",
    },
    "reexports-foreign": {
        "pb/__init__.py": "from ._impl import Thing as Alpha\nfrom ._impl import helper\nfrom .sub import *\n",
        "pb/_impl.py": "import collections\nfrom pathlib import Path\n\n\nclass Thing:\n    def m(self, p: Path, d: collections.OrderedDict) -> 'Thing':\n        ...\n\n\ndef helper(t: Thing, c: collections.Counter) -> Path:\n    ...\n",
        "pb/sub/__init__.py": "from ._deep import Deep\n",
        "pb/sub/_deep.py": "from decimal import Decimal\n\n\nclass Deep:\n    def v(self) -> Decimal:\n        ...\n",
        "pb/user.py": "from pathlib import Path\n\nfrom pb._impl import Thing\n\n\ndef use(t: Thing, p: Path | None = None) -> list[Thing]:\n    ...\n",
    },
    # one class re-exported by two packages whose alphabetical order (pd/aa/bb < pd/zz) differs from their depth order
    "reexport-order": {
        "pd/__init__.py": "",
        "pd/aa/__init__.py": "",
        "pd/aa/bb/__init__.py": "from pd.core.deep._impl2 import Gear\nfrom pd.core.deep._impl2 import turn\n",
        "pd/aa/bb/helper.py": "def h1() -> int:\n    ...\n",
        "pd/zz/__init__.py": "from pd.core.deep._impl2 import Gear\nfrom pd.core.deep._impl2 import turn\n",
        "pd/zz/helper2.py": "from pd.zz import Gear\n\n\ndef h2(g: Gear) -> Gear:\n    ...\n",
        "pd/core/__init__.py": "",
        "pd/core/deep/__init__.py": "",
        "pd/core/deep/_impl2.py": "class Gear:\n    def g(self) -> int:\n        ...\n\n\ndef turn(g: Gear) -> int:\n    ...\n",
    },
    "todos-generics": {
        "pc/__init__.py": "",
        "pc/m1.py": (
            "from typing import Generic, TypeVar\n\nT = TypeVar('T')\nU = TypeVar('U', bound=int)\n\n\n"
            "class Box(Generic[T]):\n    def __init__(self, item: T, extra=None) -> None:\n        self.item: T = item\n\n    def get(self) -> T:\n        ...\n\n    def put(self, x: T, y: U) -> U:\n        ...\n\n\n"
            "def pair(a: T, b: U) -> tuple[T, U]:\n    ...\n\n\ndef last(a: tuple[int, str], b: set[int], *args):\n    pass\n"
        ),
        "pc/m2.py": "from enum import Enum\n\n\nclass Color(Enum):\n    RED = 1\n    GREEN = 2\n\n\nclass Outer:\n    class Inner:\n        x: list[int, str] = []\n\n    @property\n    def p(self) -> set[int]:\n        ...\n\n    @classmethod\n    def c(cls, a) -> None:\n        ...\n",
    },
}


def canon_gen(gen) -> str:
    d = {
        "module_id": gen.module_id,
        "reexport_module_id": getattr(gen, "reexport_module_id", None),
        "class_generics": list(gen.class_generics),
        "module_imports": sorted(gen.module_imports),
        "creating_reexport": gen.currently_creating_reexport_data,
        "outside": sorted(gen.classes_outside_package),
        "reexport_modules": {k: [e.name for e in v] for k, v in gen.reexport_modules.items()},
        "todo": sorted(getattr(gen, "_current_todo_msgs", set())),
    }
    return json.dumps(d, sort_keys=True)


def api_json(api) -> str:
    return json.dumps(api.to_dict(), sort_keys=True, default=repr)


def job_histories(name: str, files: dict[str, str], depth: int, convert: bool):
    """Explore all event histories up to `depth` on one input.  Returns (states, transitions, violations, samples)."""
    import safeds_stubgen.api_analyzer  # noqa: F401
    from safeds_stubgen.api_analyzer import get_api
    from safeds_stubgen.stubs_generator import StubsStringGenerator, create_stub_files, generate_stub_data

    d = fresh_dir("h")
    violations: list[tuple[str, str, dict]] = []
    try:
        write_tree(d / "in", files)
        root = next(iter(files)).split("/")[0]
        pristine = get_api(root=Path(d / "in" / root))
        pristine_json = api_json(pristine)
        modules = [m for m in pristine.modules if not m.endswith("__init__") and pristine.modules[m].name != "__init__"]
        events = [("G", m) for m in modules] + [("R",), ("D",), ("F",), ("N",)]

        def fresh_world():
            api = copy.deepcopy(pristine)
            gen = StubsStringGenerator(api=api, convert_identifiers=convert)
            out = fresh_dir("o")
            return {"api": api, "gen": gen, "out": out, "data": None}

        def apply(w, ev):
            if ev[0] == "G":
                return ("G", w["gen"](w["api"].modules[ev[1]]))
            if ev[0] == "R":
                res = w["gen"].create_reexport_module_strings(out_path=w["out"])
                return ("R", [(str(p.relative_to(w["out"])), n, t, f) for p, n, t, f in res])
            if ev[0] == "D":
                w["data"] = generate_stub_data(stubs_generator=w["gen"], out_path=w["out"])
                return ("D", [(str(p.relative_to(w["out"])), n, t, f) for p, n, t, f in w["data"]])
            if ev[0] == "F":
                data = w["data"] if w["data"] is not None else generate_stub_data(stubs_generator=w["gen"], out_path=w["out"])
                create_stub_files(stubs_generator=w["gen"], stubs_data=data, out_path=w["out"])
                return ("F", read_tree(w["out"]))
            if ev[0] == "N":
                w["gen"] = StubsStringGenerator(api=w["api"], convert_identifiers=convert)
                w["data"] = None
                return ("N", None)
            raise AssertionError(ev)

        def canon(w) -> str:
            return hashlib.sha1((api_json(w["api"]) + canon_gen(w["gen"]) + json.dumps(read_tree(w["out"]), sort_keys=True) + str(w["data"] is not None)).encode()).hexdigest()

        # reference answers: each event as the FIRST event on a pristine copy; single-run directory
        reference = {}
        for ev in events:
            w = fresh_world()
            try:
                reference[ev] = apply(w, ev)[1]
            except Exception as e:  # noqa: BLE001
                reference[ev] = "EXC:" + repr(e)
            shutil.rmtree(w["out"], ignore_errors=True)
        w = fresh_world()
        apply(w, ("D",))
        single_dir = apply(w, ("F",))[1]
        shutil.rmtree(w["out"], ignore_errors=True)

        # (4) an inherited method renders identically in every subclass that shows it
        for path, text in single_dir.items():
            if not path.endswith(".sdsstub"):
                continue
            try:
                m = parse_stub(text, path)
            except SdsSyntaxError:
                continue
            shown: dict[str, set[str]] = {}
            for chain, dcl in m.walk():
                if dcl.kind == "fun" and chain:
                    sig = ",".join(f"{p.py_name}:{p.type.render() if p.type else None}" for p in (dcl.params or [])) + "->" + ",".join(r.type.render() if r.type else "" for r in (dcl.results or []))
                    shown.setdefault(dcl.py_name, set()).add(sig)
            for mname, sigs in shown.items():
                if len(sigs) > 1 and mname.startswith("lit"):
                    violations.append(("same-rendering-everywhere", f"inherited:{name}:{mname}", {"input": name, "method": mname, "renderings": sorted(sigs)}))

        seen: set[str] = set()
        frontier = deque([()])
        transitions = 0
        samples = []
        while frontier:
            hist = frontier.popleft()
            if len(hist) >= depth:
                continue
            for ev in events:
                w = fresh_world()
                try:
                    for h in hist:
                        apply(w, h)
                    try:
                        kind, ans = apply(w, ev)
                    except Exception as e:  # noqa: BLE001
                        kind, ans = ev[0], "EXC:" + repr(e)
                    transitions += 1
                    hlabel = ">".join(x[0] + (":" + x[1].split("/")[-1] if len(x) > 1 else "") for x in (*hist, ev))
                    if api_json(w["api"]) != pristine_json:
                        a, b = json.loads(pristine_json), json.loads(api_json(w["api"]))
                        where = next((k for k in a if a[k] != b.get(k)), "?")
                        violations.append(("model-unchanged", f"model:{name}:{ev[0]}:{where}", {"input": name, "history": hlabel, "changed_list": where}))
                    # (R's answer is the queue filled by the G events before it: it legitimately depends on them; D contains an R)
                    same = ans == reference[ev]
                    if kind == "D" and isinstance(ans, list) and isinstance(reference[ev], list):
                        # entries queued by a stand-alone G before D appear twice with identical path and text: no observable effect
                        same = set(ans) == set(reference[ev])
                    if kind in ("G", "D") and not same:
                        first = "?"
                        if isinstance(ans, tuple) and isinstance(reference[ev], tuple):
                            first = "text"
                        violations.append(("generation-independent-of-history", f"history:{name}:{ev[0]}:after:{hist[-1][0] if hist else '-'}", {"input": name, "history": hlabel, "fresh": str(reference[ev])[:400], "now": str(ans)[:400], "kind": first}))
                    if kind == "F" and hist and hist[-1] == ("D",) and ans != single_dir:
                        diff = sorted(k for k in set(ans) | set(single_dir) if ans.get(k) != single_dir.get(k))[:4]
                        violations.append(("directory-equals-single-run", f"dir:{name}:after:{'>'.join(x[0] for x in hist[-3:])}", {"input": name, "history": hlabel, "files_differ": diff}))
                    key = canon(w)
                    if key not in seen:
                        seen.add(key)
                        frontier.append((*hist, ev))
                        if len(samples) < 3:
                            samples.append(hlabel)
                finally:
                    shutil.rmtree(w["out"], ignore_errors=True)
        return len(seen), transitions, violations, samples
    finally:
        shutil.rmtree(d, ignore_errors=True)


def run(rep: Report, tier: str, seed: int) -> None:
    depth = 3 if tier == "quick" else 4
    jobs = []
    for name, files in INPUTS.items():
        for convert in (False, True):
            jobs.append(((name, convert), job_histories, (name, files, depth, convert)))

    def on_result(tag, value) -> None:
        name, convert = tag
        states, transitions, violations, samples = value
        rep.states += states
        rep.transitions += transitions
        rep.traces_validated += transitions
        rep.case(f"histories:{name}:{'nc' if convert else 'py'}", True, sample={"input": name, "states": states, "transitions": transitions, "example_histories": samples})
        if not violations:
            rep.ok("histories")
        for clause, sig, detail in violations:
            rep.violation(clause, sig + ("|nc" if convert else "|py"), detail, files=INPUTS[name], src_rel=next(iter(INPUTS[name])).split("/")[0], opts=Opts(convert=convert))

    run_jobs(jobs, on_result)

    # ---- Part B: console script twice into one OUT; into a dirty OUT
    for name, files in INPUTS.items():
        root = next(iter(files)).split("/")[0]
        d = fresh_dir("b")
        try:
            write_tree(d / "in", files)
            o1 = run_cli(f"in/{root}", "out", Opts(), cwd=d, mypy_cache=True, out_abs_for_read=d / "out")
            first = dict(o1.files)
            o2 = run_cli(f"in/{root}", "out", Opts(), cwd=d, mypy_cache=True, out_abs_for_read=d / "out")
            rep.case(f"cli-twice:{name}", True, sample={"input": name, "files": sorted(first)})
            if o1.outcome != "completed" or o2.outcome != "completed":
                rep.violation("run-completes", f"run:{o2.crash_sig() or o1.crash_sig()}|cli-twice:{name}", {"input": name, "exc1": o1.exc_msg, "exc2": o2.exc_msg}, files=files, src_rel=root, opts=Opts())
            elif o2.files != first:
                diff = sorted(k for k in set(first) | set(o2.files) if first.get(k) != o2.files.get(k))[:5]
                rep.violation("second-run-leaves-same-tree", f"cli-twice:{name}", {"input": name, "files_differ": diff}, files=files, src_rel=root, opts=Opts())
            else:
                rep.ok("second-run-leaves-same-tree")
            # dirty OUT: pre-populated with the output of the other inputs
            for other, ofiles in INPUTS.items():
                if other == name:
                    continue
                oroot = next(iter(ofiles)).split("/")[0]
                write_tree(d / "in2", ofiles)
                run_cli(f"in2/{oroot}", "dirty", Opts(), cwd=d, out_abs_for_read=d / "dirty")
            before = read_tree(d / "dirty")
            o3 = run_cli(f"in/{root}", "dirty", Opts(), cwd=d, out_abs_for_read=d / "dirty")
            rep.case(f"cli-dirty:{name}", True)
            if o3.outcome == "completed":
                bad = [k for k, v in first.items() if o3.files.get(k) != v and not (k in before and k.split("/")[0] not in (root,))]
                # files of this run must have the single-run content (placeholder files of other libraries may be shared)
                bad = [k for k in bad if k.split("/")[0] == root or k.endswith("__api.json")]
                if bad:
                    rep.violation("dirty-out-same-content", f"cli-dirty:{name}", {"input": name, "files_differ": bad[:5]}, files=files, src_rel=root, opts=Opts())
                else:
                    rep.ok("dirty-out-same-content")
                shared = [k for k, v in first.items() if k.split("/")[0] != root and not k.endswith("__api.json") and o3.files.get(k) != v]
                if shared:
                    rep.violation("dirty-out-same-content", f"cli-dirty-placeholder:{name}", {"input": name, "placeholder_files_differ": shared[:5], "single_run": first.get(shared[0]), "dirty_run": o3.files.get(shared[0])}, files=files, src_rel=root, opts=Opts())
                else:
                    rep.ok("dirty-out-placeholders")
        finally:
            shutil.rmtree(d, ignore_errors=True)
    rep.rule = (
        f"Part A: all event histories of length <= {depth} over {{generate module i, re-export strings, generate_stub_data, create_stub_files, new generator}} on 4 inputs (literal|None parameters inherited by several subclasses, one class re-exported by two packages whose alphabetical and depth orders differ, *args, aliased re-exports to shorter paths, foreign classes, generics, TODO-raising declarations) x naming conversion off/on, "
        "each replayed on a deepcopy of the pristine API, states deduplicated on (API JSON, generator scratch fields, directory); Part B: console script twice into one directory with the mypy cache left in place, and into a directory holding other packages' output; distinct = exploration per (input, naming) + CLI scenarios"
    )
    rep.assumptions = [
        "generator scratch fields are read from the harness (module_id, class_generics, module_imports, currently_creating_reexport_data, classes_outside_package, reexport_modules, _current_todo_msgs)",
        "a history ending in D;F must leave exactly the single-run directory; F without a preceding D generates its own data",
    ]
