"""C05 - type hints are translated faithfully and compositionally (E1 over annotation terms, DESIGN.md 6/C05)."""

from __future__ import annotations

import itertools
import re

from ..driver import Obs, Opts
from ..explore import run_packed
from ..pkg import PKG, Case, index_stubs, pack
from ..report import Report
from ..sds_parser import SdsType

# ------------------------------------------------------------------------------------------------------ terms
# A term is (ctor, children...) ; leaves are (name,)

LEAVES = ["int", "str", "bool", "float", "None", "Any", "LC", "OC", "Color", "T", "TB", "FwdLC", "NT", "TD", "DC", "NTS", "TPS"]
LEAF_SRC = {"LC": "LC_@MOD@", "FwdLC": '"LC_@MOD@"'}
LEAF_IMG = {"int": "Int", "str": "String", "bool": "Boolean", "float": "Float", "Any": "Any", "LC": "LC", "OC": "OC", "Color": "Color", "T": "T", "TB": "TB", "FwdLC": "LC", "NT": "NT", "TD": "TD", "DC": "DC", "NTS": "NTS", "TPS": "TPS"}

UNARY = ["list", "List", "Sequence", "Collection", "set", "tuple1", "Optional", "orNone", "Gen", "Callable0", "CallableNone", "AliasL", "AliasO"]
BINARY = ["dict", "Mapping", "tuple2", "Union", "bar", "Callable1", "AliasP"]
# AliasL / AliasO / AliasP: applications of the generic type aliases 'AliasL = list[AT]', 'AliasO = Optional[AT]',
# 'AliasP = list[tuple[AK, AV]]' (HEADER): an alias application means its target with the arguments put in
LITERALS = [("Lit", "1"), ("Lit", '"a"'), ("Lit", "True"), ("Lit", "None"), ("Lit", '1, "a"'), ("Lit", '"a", "b"'), ("Lit", "True, 1"), ("Lit", "1, None"), ("Lit", "Color.RED")]
LIT_ATOMS = {
    "1": [("lit", "int:1")], '"a"': [("lit", "str:a")], "True": [("lit", "bool:True")], "None": [("null",)],
    '1, "a"': [("lit", "int:1"), ("lit", "str:a")], '"a", "b"': [("lit", "str:a"), ("lit", "str:b")],
    "True, 1": [("lit", "bool:True"), ("lit", "int:1")], "1, None": [("lit", "int:1"), ("null",)],
    # Safe-DS literal types hold int / float / string / boolean / null only: the member of an enum is (a value of) the enum
    "Color.RED": [("n", "Color", ())],
}  # fmt: skip
# constructors on which the statement is silent: enumerated, judged by self-consistency (compositionality / position) only
ALIAS = ("AliasL", "AliasO", "AliasP")
EXTRA_UNARY = ["type", "Iterable", "frozenset", "tupleEllipsis", "CallableEllipsis", "Annotated"]


def src(t) -> str:
    c = t[0]
    if len(t) == 1:
        return LEAF_SRC.get(c, c)
    if c == "Lit":
        return f"Literal[{t[1]}]"
    a = [src(x) for x in t[1:]]
    return {
        "list": lambda: f"list[{a[0]}]", "List": lambda: f"typing.List[{a[0]}]", "Sequence": lambda: f"Sequence[{a[0]}]",
        "Collection": lambda: f"Collection[{a[0]}]", "set": lambda: f"set[{a[0]}]", "tuple1": lambda: f"tuple[{a[0]}]",
        "Optional": lambda: f"Optional[{a[0]}]", "orNone": lambda: f"{a[0]} | None", "Gen": lambda: f"Gen[{a[0]}]",
        "Callable0": lambda: f"Callable[[], {a[0]}]", "CallableNone": lambda: f"Callable[[{a[0]}], None]",
        "dict": lambda: f"dict[{a[0]}, {a[1]}]", "Mapping": lambda: f"Mapping[{a[0]}, {a[1]}]", "tuple2": lambda: f"tuple[{a[0]}, {a[1]}]",
        "Union": lambda: f"Union[{a[0]}, {a[1]}]", "bar": lambda: f"{a[0]} | {a[1]}", "Callable1": lambda: f"Callable[[{a[0]}], {a[1]}]",
        "Final": lambda: f"Final[{a[0]}]",
        "AliasL": lambda: f"AliasL[{a[0]}]", "AliasO": lambda: f"AliasO[{a[0]}]", "AliasP": lambda: f"AliasP[{a[0]}, {a[1]}]",
        "type": lambda: f"type[{a[0]}]", "Iterable": lambda: f"Iterable[{a[0]}]", "frozenset": lambda: f"frozenset[{a[0]}]",
        "tupleEllipsis": lambda: f"tuple[{a[0]}, ...]", "CallableEllipsis": lambda: f"Callable[..., {a[0]}]", "Annotated": lambda: f'Annotated[{a[0]}, "x"]',
    }[c]()  # fmt: skip


def label(t) -> str:
    if len(t) == 1:
        return t[0]
    if t[0] == "Lit":
        return f"Lit[{t[1]}]"
    return f"{t[0]}({', '.join(label(x) for x in t[1:])})"


def legal(t) -> bool:
    """Terms the Python type system / the renderer can express."""
    c = t[0]
    if len(t) == 1 or c == "Lit":
        return True
    kids = t[1:]
    if not all(legal(k) for k in kids):
        return False
    if c in ("orNone", "bar"):
        # `"Fwd" | None` is a runtime TypeError outside stub files; `None | None` is one too
        if any(k == ("FwdLC",) for k in kids):
            return False
        if c == "bar" and all(k == ("None",) for k in kids):
            return False
        if c == "orNone" and kids[0] == ("None",):
            return False
    return True


def has(t, names) -> bool:
    return t[0] in names or any(has(k, names) for k in t[1:] if isinstance(k, tuple))


# ---------------------------------------------------------------------------------------------- reference model


def ref(t) -> frozenset | None:
    """Normal form of the expected Safe-DS type: a frozenset of atoms (a union; singleton = plain type).

    Returns None when the statement does not prescribe the image (extra constructors).
    """
    c = t[0]
    if len(t) == 1:
        if c == "None":
            return frozenset([("null",)])
        return frozenset([("n", LEAF_IMG[c], ())])
    if c == "Lit":
        return frozenset(LIT_ATOMS[t[1]])
    kids = [ref(k) for k in t[1:]]
    if any(k is None for k in kids) or c in EXTRA_UNARY:
        return None
    if c in ("list", "List", "Sequence", "Collection"):
        return frozenset([("n", "List", (kids[0],))])
    if c == "set":
        return frozenset([("n", "Set", (kids[0],))])
    if c == "tuple1":
        return frozenset([("n", "Tuple", (kids[0],))])
    if c == "tuple2":
        return frozenset([("n", "Tuple", (kids[0], kids[1]))])
    if c in ("dict", "Mapping"):
        return frozenset([("n", "Map", (kids[0], kids[1]))])
    if c in ("Optional", "orNone"):
        return kids[0] | frozenset([("null",)])
    if c in ("Union", "bar"):
        return kids[0] | kids[1]
    if c == "Gen":
        return frozenset([("n", "Gen", (kids[0],))])
    if c == "Callable0":
        return frozenset([("call", (), _results(t[1], kids[0]))])
    if c == "CallableNone":
        return frozenset([("call", (kids[0],), ())])
    if c == "Callable1":
        return frozenset([("call", (kids[0],), _results(t[2], kids[1]))])
    if c == "Final":
        return kids[0]
    if c == "AliasL":
        return frozenset([("n", "List", (kids[0],))])
    if c == "AliasO":
        return kids[0] | frozenset([("null",)])
    if c == "AliasP":
        return frozenset([("n", "List", (frozenset([("n", "Tuple", (kids[0], kids[1]))]),))])
    raise AssertionError(c)


def _results(term, img):
    # a callable returning None has an empty result list; a callable returning a tuple has one result per element
    if term == ("None",) or img == frozenset([("null",)]):
        # Literal[None] / Optional[None] are None (PEP 586): a callable returning them has no result either
        return ()
    if term[0] in ("tuple1", "tuple2"):
        res = tuple(ref(k) for k in term[1:])
        return () if res == (frozenset([("null",)]),) else res
    return (img,)


def norm(ty: SdsType | None) -> frozenset | None:
    """Normal form of an observed Safe-DS type."""
    if ty is None:
        return None
    atoms: set = set()
    if ty.kind == "named":
        name = re.sub(r"^LC_m\d+$", "LC", ty.name)
        if name == "Nothing" and not ty.args:
            if ty.nullable:
                return frozenset([("null",)])
            atoms.add(("n", "Nothing", ()))
        else:
            atoms.add(("n", name, tuple(norm(a) for a in ty.args)))
    elif ty.kind == "union":
        for a in ty.args:
            atoms |= norm(a)
    elif ty.kind == "literal":
        for e in ty.literals:
            if e[0] == "null":
                atoms.add(("null",))
            elif e[0] == "neg":
                atoms.add(("lit", f"{e[1][0]}:-{e[1][1]}"))
            elif e[0] == "bool":
                atoms.add(("lit", f"bool:{e[1]}"))
            else:
                atoms.add(("lit", f"{e[0]}:{e[1]}"))
    elif ty.kind == "callable":
        res = tuple(norm(r.type) for r in ty.results)
        if res == (frozenset([("null",)]),):
            res = ()  # don't-care: a result list consisting of one None == no results (the statement fixes only '-> None')
        atoms.add(("call", tuple(norm(p.type) for p in ty.params), res))
    else:
        atoms.add(("unknown",))
    if ty.nullable:
        atoms.add(("null",))
    return frozenset(atoms)


def show(n) -> str:
    if n is None:
        return "<none>"

    def atom(a):
        if a[0] == "n":
            return a[1] + ("<" + ", ".join(show(x) for x in a[2]) + ">" if a[2] else "")
        if a[0] == "lit":
            return f"lit({a[1]})"
        if a[0] == "call":
            return "(" + ", ".join(show(x) for x in a[1]) + ")->(" + ", ".join(show(x) for x in a[2]) + ")"
        return a[0]

    parts = sorted(atom(a) for a in n)
    return parts[0] if len(parts) == 1 else "{" + " | ".join(parts) + "}"


# -------------------------------------------------------------------------------------------------- enumeration


def enumerate_terms(tier: str):
    leaves = [(x,) for x in LEAVES]
    d0 = leaves + LITERALS
    yield from ((t, 0) for t in d0)
    d1 = []
    for c in UNARY + EXTRA_UNARY:
        for a in d0:
            d1.append((c, a))
    for c in BINARY:
        for a, b in itertools.product(d0, repeat=2):
            d1.append((c, a, b))
    d1 = [t for t in d1 if legal(t)]
    yield from ((t, 1) for t in d1)
    def slice2():
        # a fixed depth-2 slice - every constructor over every constructor, children built from 3 leaves
        small = [t for t in d1 if all(k in (("int",), ("None",), ("LC",), ("Lit", "1")) for k in t[1:])]
        for c in UNARY:
            for a in small:
                t = (c, a)
                if legal(t):
                    yield t
        for c in BINARY:
            for a in small:
                for b in (("str",), ("None",)):
                    for t in ((c, a, b), (c, b, a)):
                        if legal(t):
                            yield t

    if tier != "thorough":
        yield from ((t, 2) for t in slice2())
        return
    # thorough: complete for unary inner terms; the alias applications take part in depth 2 through the slice only
    yield from ((t, 2) for t in slice2() if has(t, ALIAS))
    unary_d1 = [t for t in d1 if t[0] not in EXTRA_UNARY and t[0] not in ALIAS]
    for c in UNARY:
        if c in ALIAS:
            continue
        for a in unary_d1:
            t = (c, a)
            if legal(t):
                yield t, 2
    for c in BINARY:
        if c in ALIAS:
            continue
        for a in unary_d1:
            for b in leaves + LITERALS[:2]:
                for t in ((c, a, b), (c, b, a)):
                    if legal(t):
                        yield t, 2


POSITIONS = ["param", "ctor_param", "result", "class_attr", "inst_attr", "property", "final_attr"]


def render_case(cid: int, t) -> str:
    s = src(t)
    generic = has(t, ("T", "TB"))
    out = [f"def f{cid}(p: {s}) -> {s}:", "    ..."]
    if generic:
        # the type variable occurs in the RESULT only: it still has to be declared as a type parameter of the function
        out += ["", "", f"def g{cid}() -> {s}:", "    ..."]
    if not generic:
        # class-level positions (a bare TypeVar is illegal outside a generic class)
        out += ["", "", f"class K{cid}:", f"    a: {s}", f"    af: Final[{s}] = None  # type: ignore", "", f"    def __init__(self, q: {s}) -> None:", f"        self.x: {s} = q", "", "    @property", f"    def pp(self) -> {s}:", "        ..."]
    return "\n".join(out) + "\n"


HEADER = (
    "import typing\n"
    "from typing import Annotated, Any, Final, Literal, Optional, TypeVar, Union\n"
    "from collections.abc import Callable, Collection, Iterable, Mapping, Sequence\n"
    "from vpkg.support import DC, NT, NTS, OC, TD, TPS, Color, Gen\n\n"
    'T = TypeVar("T")\nTB = TypeVar("TB", bound=int)\nAT = TypeVar("AT")\nAK = TypeVar("AK")\nAV = TypeVar("AV")\nAliasL = list[AT]\nAliasO = Optional[AT]\nAliasP = list[tuple[AK, AV]]\n\n\n'
    "class LC_@MOD@:\n    pass\n\n\n"
)
SUPPORT = (
    "from dataclasses import dataclass\nfrom enum import Enum\nfrom typing import Generic, NamedTuple, TypedDict, TypeVar\n\n_G = TypeVar('_G')\n\n\n"
    "class OC:\n    pass\n\n\nclass Color(Enum):\n    RED = 1\n\n\nclass Gen(Generic[_G]):\n    pass\n\n\n"
    "class NT(NamedTuple):\n    x: int\n\n\nclass TD(TypedDict):\n    a: int\n\n\n@dataclass\nclass DC:\n    a: int\n\n\nclass NTS(NT):\n    def extra(self) -> int:\n        return 1\n\n\nclass TPS(tuple[int, str]):\n    pass\n"
)


def _size(t) -> int:
    return 1 + sum(_size(k) for k in t[1:] if isinstance(k, tuple))


def _culprit(t, failing: set) -> tuple:
    """Smallest sub-term already known to fail in the same position (attribution of composite failures)."""
    for k in t[1:]:
        if isinstance(k, tuple):
            if k in failing:
                return _culprit(k, failing)
    return t


def ctor_shape(t) -> str:
    if len(t) == 1:
        return t[0]
    if t[0] == "Lit":
        return f"Lit[{t[1]}]"
    return f"{t[0]}({', '.join(x[0] if len(x) > 1 and x[0] != 'Lit' else ctor_shape(x) for x in t[1:])})"


def run(rep: Report, tier: str, seed: int) -> None:
    cases = []
    for i, (t, depth) in enumerate(enumerate_terms(tier)):
        cases.append(Case(i, render_case(i, t), (t, depth), (), label(t)))
    rep.rule = (
        f"annotation terms over {len(LEAVES)} leaves (builtins, None, Any, local / imported / forward-referenced class, enum, type variables, NamedTuple / TypedDict / dataclass classes, a subclass of a NamedTuple class, a subclass of tuple[int, str]) + 9 Literal forms (one of an enum member) and 20 listed (+6 unlisted) constructors (3 of them applications of generic type aliases): depth<=1 complete; depth 2 "
        + ("complete for unary inner terms (binary outer: one depth-1 child + one leaf, both orders)" if tier == "thorough" else "fixed slice (every constructor over every constructor)")
        + "; each term in 7 positions (parameter, constructor parameter, result, class attribute, instance attribute, result of a property, Final[...] class attribute); distinct = distinct term"
    )
    failing: dict[str, set] = {p: set() for p in POSITIONS}
    per_group = 1500 if tier == "quick" else 3000
    stats: dict[str, int] = {}

    def build(units):
        return pack(units, per_module=250, extra_files={f"{PKG}/support.py": SUPPORT}, header=lambda name: HEADER)

    def on_group(units, opts, obs: Obs, files) -> None:
        if obs.outcome != "completed":
            for c in units:
                rep.case(c.label)
                t = c.meta[0]
                rep.violation("run-completes", f"run:{obs.outcome}:{obs.crash_sig()}:{ctor_shape(t)}", {"term": c.label, "exc": obs.exc_type + ": " + obs.exc_msg, "tb": obs.exc_tb[-600:]}, files=files, src_rel=PKG, opts=opts, obs=obs)
            return
        idx = index_stubs(obs)
        for path, e in idx.errors.items():
            rep.violation("stub-parses", f"unparsable:{e.clause}", {"file": path, "error": str(e)}, files=files, src_rel=PKG, opts=opts, obs=obs)
        for c in units:
            t, depth = c.meta
            rep.case(c.label, True, sample={"term": c.label, "annotation": src(t)} if c.cid % 499 == 0 else None)
            cid = c.cid
            observed: dict[str, frozenset | None | str] = {}
            f = idx.find(f"f{cid}", "fun")
            if f:
                d = f[0][2]
                observed["param"] = norm(d.params[0].type) if d.params else "<missing>"
                # result position: tuple annotations give one result per element, None gives no result
                observed["result"] = tuple(norm(r.type) for r in (d.results or []))
            k = idx.find(f"K{cid}", "class")
            if k:
                d = k[0][2]
                observed["ctor_param"] = norm(d.params[0].type) if d.params else "<missing>"
                for m in d.members:
                    if m.kind == "attr" and m.py_name == "a":
                        observed["class_attr"] = norm(m.type)
                    if m.kind == "attr" and m.py_name == "x":
                        observed["inst_attr"] = norm(m.type)
                    if m.kind == "attr" and m.py_name == "af":
                        observed["final_attr"] = norm(m.type)
                    if m.kind == "attr" and m.py_name == "pp":
                        observed["property"] = norm(m.type)
            exp = ref(t)
            g = idx.find(f"g{cid}", "fun")
            if g:
                shown = " ".join(r.type.render() for r in (g[0][2].results or []) if r.type)
                need = {n for n in ("T", "TB") if has(t, (n,)) and re.search(rf"\b{n}\b", shown)}  # (a term rendered as 'unknown' mentions no variable)
                got_tp = {tp.name for tp in g[0][2].type_params}
                if need <= got_tp:
                    rep.ok("type-variable-declared")
                else:
                    rep.violation("type-variable-declared", f"type-variable-declared:result-only:{ctor_shape(t) if len(t) == 1 else t[0]}", {"term": c.label, "annotation": src(t), "declared": sorted(got_tp), "needed": sorted(need)},
                                  files={f"{PKG}/__init__.py": "", f"{PKG}/support.py": SUPPORT, f"{PKG}/m.py": (HEADER + c.src).replace("@MOD@", "m000000")}, src_rel=PKG, opts=opts)

            def viol(clause, pos, detail, t=t, c=c) -> None:
                # attribution to the smallest failing sub-term must not depend on the order in which groups complete:
                # failures are buffered and attributed after the run, smallest terms first
                mini = {f"{PKG}/__init__.py": "", f"{PKG}/support.py": SUPPORT, f"{PKG}/m.py": (HEADER + c.src).replace("@MOD@", "m000000")}
                pending.append((_size(t), c.label, clause, pos, t, {"term": c.label, "annotation": src(t), "position": pos, **detail}, mini, opts))

            for pos in POSITIONS:
                if pos not in observed:
                    if pos in ("param", "result") or not has(t, ("T", "TB")):
                        rep.extra["not_emitted"] = rep.extra.get("not_emitted", 0) + 1
                    continue
                ob = observed[pos]
                if pos == "result":
                    if t == ("None",):
                        want = ()
                    elif t[0] in ("tuple1", "tuple2"):
                        want = tuple(ref(x) for x in t[1:])
                    else:
                        want = (exp,)
                    if any(w is None for w in want):
                        continue
                    if want == (frozenset([("null",)]),) and ob in ((), want):
                        # '-> Literal[None]' / '-> Optional[None]': the statement only fixes '-> None'; both renderings accepted
                        rep.ok("image:result")
                        continue
                    if ob == want:
                        rep.ok("image:result")
                    else:
                        viol("image", pos, {"expected": [show(w) for w in want], "observed": [show(o) for o in ob]})
                    continue
                if exp is None:
                    continue
                if ob == exp:
                    rep.ok(f"image:{pos}")
                else:
                    viol("image", pos, {"expected": show(exp), "observed": show(ob) if not isinstance(ob, str) else ob})
            # position independence for all terms (listed or not): the non-result positions agree
            vals = {p: observed[p] for p in ("param", "ctor_param", "class_attr", "inst_attr", "property", "final_attr") if p in observed}
            if len(vals) >= 2:
                base_pos, base = next(iter(vals.items()))
                for p, v in vals.items():
                    if v != base:
                        if exp is None or (v == exp) == (base == exp):
                            # only report here what 'image' has not already attributed to one position
                            viol("position-independence", f"{base_pos}~{p}", {"a": show(base) if not isinstance(base, str) else base, "b": show(v) if not isinstance(v, str) else v})
                        break
                else:
                    rep.ok("position-independence")

    groups = [(cases[i : i + per_group], Opts()) for i in range(0, len(cases), per_group)]
    # the translation of a type does not depend on the naming option: depth <= 1 again with naming conversion on
    shallow = [c for c in cases if c.meta[1] <= 1]
    groups += [(shallow[i : i + per_group], Opts(convert=True)) for i in range(0, len(shallow), per_group)]
    pending: list[tuple] = []
    run_packed(groups, build, on_group, stats)
    for _sz, _label, clause, pos, t, detail, mini, opts in sorted(pending, key=lambda x: (x[0], x[1], x[2], x[3])):
        cul = _culprit(t, failing.setdefault(pos, set()))
        failing[pos].add(t)
        rep.violation(clause, f"{clause}:{pos}:{ctor_shape(cul)}", detail, files=mini, src_rel=PKG, opts=opts)
    rep.extra.update(stats)
    rep.extra["terms"] = len(cases)
    rep.assumptions = [
        "reference translation written from the property statement (mc/checks/c05.py: ref); unions compared as sets, X? == union<X, Nothing?>, literal<a, null> == union<literal<a>, Nothing?>",
        "constructors on which the statement is silent (type[], Iterable[], frozenset[], tuple[x, ...], Callable[..., x], Annotated) are judged by position independence only",
    ]
