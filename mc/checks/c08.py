"""C08 - output is a deterministic function of package contents and options.

E3: deviation-bounded exploration of environment schedules (CHESS-style iterative bounding; a "preemption" is a
departure from the default environment answer): every iteration of a set the tool built with >= 2 elements and every
listing of a package directory with >= 2 entries is a choice point; all schedules with <= d deviations are executed on
the real pipeline and every output file must be byte-identical to the default schedule's.
Plus: real interpreter runs under K hash seeds (completeness probe for the interception), path spellings, working
directories, repeated runs with mypy's cache left in place.
"""

from __future__ import annotations

import hashlib
import shutil

from ..driver import Obs, Opts, fresh_dir, run_cli, write_tree
from ..explore import run_jobs
from ..report import Report
from ..schedule import job_schedule, uncontrolled_set_constructions
from ..tree import enumerate_trees, pack_trees

INPUTS: dict[str, tuple[dict[str, str], str]] = {
    "T1-two-equal-depth-reexporters": (
        {
            # (the defining module lies one level deeper than the two re-exporters: a class is only moved to - and imported
            # from - a re-exporting package whose path is shorter than the module's)
            "pk/__init__.py": "",
            "pk/impl/__init__.py": "",
            "pk/impl/_core.py": "class Thing:\n    def m(self) -> int:\n        return 1\n\n\ndef tool(a: int) -> int:\n    return a\n",
            "pk/p1/__init__.py": "from pk.impl._core import Thing as Alpha\nfrom pk.impl._core import tool as t_one\n",
            "pk/p2/__init__.py": "from pk.impl._core import Thing as Beta\nfrom pk.impl._core import tool as t_two\n",
            "pk/p1/x1.py": "def one() -> int:\n    return 1\n",
            "pk/p2/x2.py": "def two() -> int:\n    return 2\n",
            "pk/user.py": "from pk.impl._core import Thing\n\n\ndef use(t: Thing) -> Thing:\n    return t\n\n\nclass Sub(Thing):\n    def own(self) -> int:\n        return 1\n",
        },
        "pk",
    ),
    "T2-same-short-name-two-modules": (
        {
            "pk/__init__.py": "",
            "pk/a.py": "class Dup:\n    def a(self) -> int:\n        return 1\n",
            "pk/b.py": "class Dup:\n    def b(self) -> int:\n        return 1\n",
            "pk/c.py": "import pk.a\nimport pk.b\n\n\nclass Child(pk.a.Dup):\n    x: 'list[Dup, int]' = []\n\n\ndef f(p: pk.b.Dup, q: pk.a.Dup) -> None:\n    ...\n\n\nclass Dup:\n    def c(self) -> int:\n        return 1\n",
        },
        "pk",
    ),
    "T3-typevars": (
        {
            "pk/__init__.py": "",
            "pk/m.py": "from typing import Generic, TypeVar\n\nTa = TypeVar('Ta')\nTb = TypeVar('Tb', bound=int)\nTc = TypeVar('Tc')\n\n\ndef three(a: Ta, b: Tb, c: Tc) -> tuple[Tc, Ta, Tb]:\n    ...\n\n\nclass G(Generic[Ta, Tb]):\n    def __init__(self, x: Tc, y: Ta, z: Tb) -> None:\n        ...\n\n    def m(self, q: Tc, r: Ta) -> Tb:\n        ...\n",
        },
        "pk",
    ),
    "T4-inferred-results": (
        {
            "pk/__init__.py": "",
            "pk/m.py": "def inf(c):\n    if c == 1:\n        return 1, 'a'\n    if c == 2:\n        return 'a', 1\n    if c == 3:\n        return 1\n    if c == 4:\n        return 's'\n    if c == 5:\n        return True, 2.5, None\n    return None\n\n\nclass K:\n    def me(self, c):\n        if c:\n            return self\n        return 1.5 if c else 'x'\n",
        },
        "pk",
    ),
    "T4b-equal-length-inferred-tuples": (
        {
            "pk/__init__.py": "",
            "pk/m.py": "def tup(c):\n    if c == 1:\n        return 1, 2\n    if c == 2:\n        return 'a', 'b'\n    if c == 3:\n        return 1.5, 2.5\n    return True, None\n\n\nclass A:\n    pass\n\n\nclass B:\n    pass\n\n\ndef classes(c):\n    if c:\n        return A, B\n    return B, A\n",
        },
        "pk",
    ),
    "T10-names-differing-by-case": (
        {
            "pk/__init__.py": "",
            "pk/ids.py": "class Id:\n    pass\n\n\nclass ID:\n    pass\n\n\nclass my_type:\n    pass\n\n\nclass MyType:\n    pass\n\n\nclass Mytype:\n    pass\n",
            "pk/users.py": "from pk.ids import ID, Id, MyType, Mytype, my_type\n\n\ndef lookup(a: Id, b: ID, c: my_type, d: MyType, e: Mytype) -> None:\n    ...\n\n\nclass K(Id, ID):\n    x: MyType | my_type | Mytype | None = None\n",
        },
        "pk",
    ),
    "T5-module-star-imported-twice": (
        {
            "pk/__init__.py": "from ._impl import *\n",
            "pk/_impl.py": "class A:\n    def a(self) -> 'B':\n        ...\n\n\nclass B:\n    def b(self) -> A:\n        ...\n\n\ndef fn(x: A) -> B:\n    ...\n",
            "pk/q1/__init__.py": "from pk._impl import *\n",
            "pk/q2/__init__.py": "from pk._impl import *\nfrom pk._impl import A as AA\n",
            "pk/q1/y1.py": "def one() -> int:\n    return 1\n",
            "pk/q2/y2.py": "def two() -> int:\n    return 2\n",
            "pk/use.py": "from pk._impl import A, B\n\n\ndef u(a: A, b: B) -> A | B | None:\n    ...\n",
        },
        "pk",
    ),
    "T6-unions-literals": (
        {
            "pk/__init__.py": "",
            "pk/m.py": "from typing import Literal, Union\n\n\nclass X:\n    pass\n\n\nclass Y:\n    pass\n\n\ndef f(a: Union[int, str, X], b: Literal['c', 'a', 'b'], c: X | Y | None, d: Literal[3, 1, 2] | None = None) -> Union[Y, X, float]:\n    ...\n\n\nclass K:\n    at: Union[str, int, None] = None\n    lt: Literal['z', 'y', 'x'] = 'x'\n\n    def __init__(self, p: X | int | str) -> None:\n        self.ia: Y | X | int = 1\n",
        },
        "pk",
    ),
    "T7-many-todos": (
        {
            "pk/__init__.py": "",
            "pk/m.py": "class A:\n    pass\n\n\nclass B:\n    pass\n\n\nclass M(A, B):\n    def __init__(self, a, *args, b: tuple[int, str], c: set[int, str]) -> None:\n        pass\n\n    @classmethod\n    def cm(cls, x, *y: int, z: set[int]):\n        pass\n\n\ndef f(a, /, b: tuple[int, int] = None, *c, d: list[int, str], **e):\n    pass\n",
        },
        "pk",
    ),
    "T8-foreign-classes": (
        {
            "pk/__init__.py": "",
            "pk/m1.py": "import collections\nfrom decimal import Decimal\nfrom pathlib import Path, PurePath\n\n\ndef f(a: collections.OrderedDict, b: Path, c: Decimal, d: collections.Counter, e: PurePath) -> collections.deque:\n    ...\n",
            "pk/m2.py": "import collections\nfrom fractions import Fraction\nfrom pathlib import Path\n\n\nclass K(collections.UserDict):\n    def m(self, a: Fraction, b: Path) -> collections.ChainMap:\n        ...\n",
        },
        "pk",
    ),
    "T11-class-used-in-own-module-and-elsewhere": (
        {
            "pk/__init__.py": "",
            "pk/aaa.py": "from pk.shapes import Shape\n\n\ndef early(s: Shape) -> None:\n    ...\n",
            "pk/shapes.py": "class Shape:\n    def clone(self) -> 'Shape':\n        return self\n\n\ndef make() -> Shape:\n    return Shape()\n\n\nclass Square(Shape):\n    def side(self, other: Shape) -> int:\n        return 1\n",
            "pk/draw.py": "from pk.shapes import Shape, Square\n\n\ndef draw(s: Shape, q: Square) -> Shape:\n    return s\n",
            "pk/zoo/__init__.py": "",
            "pk/zoo/pen.py": "from pk.shapes import Shape\n\n\nclass Pen:\n    def use(self, s: Shape) -> None:\n        ...\n",
        },
        "pk",
    ),
    "T12-same-class-name-in-modules-a-and-ab": (
        {
            "pk/__init__.py": "",
            "pk/a.py": "class Dup:\n    def from_a(self) -> int:\n        return 1\n\n\nclass Sub_a(Dup):\n    pass\n\n\ndef mk_a() -> Dup:\n    d = Dup()\n    return d\n",
            "pk/ab.py": "class Dup:\n    def from_ab(self) -> int:\n        return 1\n\n\nclass Sub_ab(Dup):\n    pass\n\n\ndef mk_ab() -> Dup:\n    d = Dup()\n    return d\n",
            "pk/abc.py": "class Dup:\n    def from_abc(self) -> int:\n        return 1\n\n\nclass Sub_abc(Dup):\n    pass\n\n\ndef mk_abc() -> Dup:\n    d = Dup()\n    return d\n",
        },
        "pk",
    ),
    "T13-class-defined-in-subpackage-init": (
        {
            "pk/__init__.py": "from .sub import C\nfrom .sub.m import D\n",
            "pk/sub/__init__.py": "class C:\n    def f(self) -> int:\n        return 1\n\n\ndef in_init(a: int) -> int:\n    return a\n",
            "pk/sub/m.py": "class D:\n    pass\n",
            "pk/a.py": "def h() -> int:\n    return 1\n",
            "pk/zz/__init__.py": "from pk.sub import C as CZ\n",
            "pk/zz/z.py": "def z() -> int:\n    return 1\n",
        },
        "pk",
    ),
    "T14-alias-defined-in-package-init-and-submodule": (
        {
            "pk/__init__.py": "class Config:\n    a: int = 1\n\n\nAlias = Config\n\n\nclass Sub(Alias):\n    pass\n",
            "pk/sub.py": "class Config:\n    c: int = 3\n\n\nAlias = Config\n\n\nclass SubSub(Alias):\n    pass\n",
            "pk/other.py": "def o() -> int:\n    return 1\n",
        },
        "pk",
    ),
    "T15-same-class-name-nested-and-top-level": (
        {
            "pk/__init__.py": "",
            "pk/a.py": "def f(x: 'list[Foo, int]') -> None:\n    ...\n\n\nclass Foo:\n    pass\n\n\nclass Outer:\n    class Foo:\n        pass\n\n\nclass Third:\n    class Foo:\n        pass\n\n\nu = Foo()\nv = Outer.Foo()\nw = Third.Foo()\n",
        },
        "pk",
    ),
    "T9-directory-order": (
        {
            "pk/__init__.py": "from .zz.b import Bz\nfrom .aa.a import Az\n",
            "pk/aa/__init__.py": "",
            "pk/aa/a.py": "class Az:\n    def m(self) -> int:\n        return 1\n",
            "pk/aa/c.py": "from pk.aa.a import Az\n\n\ndef c(x: Az) -> Az:\n    return x\n",
            "pk/zz/__init__.py": "",
            "pk/zz/b.py": "from pk.aa.a import Az\n\n\nclass Bz(Az):\n    pass\n",
            "pk/mm/__init__.py": "",
            "pk/mm/d.py": "from pk.zz.b import Bz\nfrom pk.aa.a import Az\n\n\ndef d(x: Bz, y: Az) -> None:\n    ...\n",
        },
        "pk",
    ),
}


def digest(obs: Obs) -> str:
    h = hashlib.sha256()
    for k in sorted(obs.files):
        h.update(k.encode() + b"\0" + obs.files[k].encode() + b"\0")
    return h.hexdigest()[:16] + (f":{obs.outcome}:{obs.crash_sig()}" if obs.outcome != "completed" else "")


def explore(rep: Report, name: str, files: dict[str, str], src_rel: str, opts: Opts, bound: int) -> dict:
    """All schedules with <= bound deviations.  Returns exploration statistics."""
    stats = {"schedules": 0, "choice_points": 0, "distinct_outputs": 0, "sites_changing_output": set()}
    results: dict[tuple, tuple[str, list]] = {}

    # default schedule first (twice: replay-twice rule)
    base = {}

    def run_batch(schedules: list[dict[int, int]]) -> None:
        jobs = [(tuple(sorted(s.items())), job_schedule, (files, src_rel, opts, s)) for s in schedules if tuple(sorted(s.items())) not in results]

        def on(tag, value) -> None:
            obs, points, _ = value
            results[tag] = (digest(obs), points, obs)
            stats["schedules"] += 1

        run_jobs(jobs, on)

    run_batch([{}])
    d0, points0, obs0 = results[()]
    # replay-twice rule: the default schedule must reproduce itself before anything is trusted
    obs_again, points_again, _ = job_schedule(files, src_rel, opts, {})
    if digest(obs_again) != d0 or points_again != points0:
        rep.harness_divergence({"input": name, "what": "default schedule not reproducible in-process", "digests": [d0, digest(obs_again)]})
    stats["choice_points"] = len(points0)
    base["digest"] = d0
    frontier = [({}, points0)]
    for level in range(1, bound + 1):
        nxt = []
        batch = []
        for sched, points in frontier:
            start = (max(sched) + 1) if sched else 0
            for i in range(start, len(points)):
                for alt in range(1, points[i][1]):
                    s2 = dict(sched)
                    s2[i] = alt
                    batch.append(s2)
        run_batch(batch)
        for s2 in batch:
            dg, pts, obs = results[tuple(sorted(s2.items()))]
            nxt.append((s2, pts))
        frontier = nxt
    outputs: dict[str, list] = {}
    for key, (dg, pts, obs) in results.items():
        outputs.setdefault(dg, []).append(key)
    stats["distinct_outputs"] = len(outputs)
    for dg, keys in outputs.items():
        if dg == d0:
            continue
        key = min(keys, key=lambda k: (len(k), k))
        _, pts, obs = results[key]
        sites = [points0[i][0] if i < len(points0) else "?" for i, _ in key]
        if obs.outcome != "completed" and obs.exc_msg.startswith("schedule divergence"):
            rep.harness_divergence({"input": name, "schedule": list(key), "msg": obs.exc_msg})
            continue
        for s in sites:
            stats["sites_changing_output"].add(s)
        diff = sorted(k for k in set(obs.files) | set(obs0.files) if obs.files.get(k) != obs0.files.get(k))
        site_key = "+".join(sorted({s.split("@")[0] + "@" + ":".join(s.split("@")[1].split(":")[:2]) for s in sites}))
        rep.violation(
            "output-independent-of-schedule", f"schedule:{name}|{site_key}",
            {"input": name, "schedule": [{"choice": i, "alternative": a, "site": points0[i][0] if i < len(points0) else "?"} for i, a in key], "files_differ": diff[:5],
             "default": (obs0.files.get(diff[0]) or "")[:400] if diff else "", "deviating": (obs.files.get(diff[0]) or "")[:400] if diff else "", "label": "permutation-derived"},
            files=files, src_rel=src_rel, opts=opts,
        )
    if len(outputs) == 1:
        rep.ok("output-independent-of-schedule")
    stats["sites_changing_output"] = sorted(stats["sites_changing_output"])
    rep.states += len(results)
    rep.transitions += sum(len(v[1]) for v in results.values())
    rep.traces_validated += len(results)
    return stats


def run(rep: Report, tier: str, seed: int) -> None:
    per_input = {}
    bound_for = {n: 1 for n in INPUTS}
    if tier == "thorough":
        for n in ("T1-two-equal-depth-reexporters", "T3-typevars", "T5-module-star-imported-twice", "T9-directory-order"):
            bound_for[n] = 2
    for name, (files, src_rel) in INPUTS.items():
        for opts in ([Opts(), Opts(convert=True, docstyle="NUMPYDOC")] if (tier == "thorough" and bound_for[name] == 1) or name.startswith("T10") else [Opts()]):
            st = explore(rep, name, files, src_rel, opts, bound_for[name])
            per_input[f"{name}|{opts.key()}"] = {k: v for k, v in st.items()}
            rep.case(f"schedules:{name}:{opts.key()}:d{bound_for[name]}", True, sample={"input": name, "bound": bound_for[name], **{k: v for k, v in st.items() if k != "sites_changing_output"}})
    if tier == "thorough":
        # re-export trees (two simultaneous re-exports), one tree per exploration, d = 1
        specs = [s for s in enumerate_trees("quick") if s.r_root != "none" and s.r_sub != "none"][::9]
        for s in specs:
            files, src = pack_trees([s])
            st = explore(rep, "tree:" + s.label, files, src, Opts(), 1)
            rep.case(f"schedules:tree:{s.label}", True)
            per_input["tree:" + s.label] = {"schedules": st["schedules"], "distinct_outputs": st["distinct_outputs"]}
    rep.extra["exploration"] = per_input
    rep.extra["uncontrolled_set_constructions"] = uncontrolled_set_constructions()

    # ---- completeness probe + real-run letters (L0)
    K = 8 if tier == "quick" else 32  # noqa: N806
    for name, (files, src_rel) in INPUTS.items():
        d = fresh_dir("q")
        try:
            write_tree(d / "in", files)
            jobs = []
            for k in range(K):
                jobs.append((("seed", k), run_cli, (str(d / "in" / src_rel), str(d / f"o{k}"), Opts(), d, {"PYTHONHASHSEED": str(k)})))
            seen: dict[str, int] = {}

            def on(tag, obs: Obs, seen=seen) -> None:
                seen.setdefault(digest(obs), tag[1])

            run_jobs(jobs, on)
            rep.case(f"hash-seeds:{name}", True, sample={"input": name, "seeds": K, "distinct_outputs": len(seen)})
            if len(seen) > 1:
                rep.violation("same-output-for-every-hash-seed", f"hashseed:{name}", {"input": name, "seeds_with_different_output": sorted(seen.values()), "label": "seed-confirmed"}, files=files, src_rel=src_rel, opts=Opts())
            else:
                rep.ok("same-output-for-every-hash-seed")
        finally:
            shutil.rmtree(d, ignore_errors=True)
    # path spellings / cwd / repetition on one input with re-exports and foreign classes
    files = dict(INPUTS["T9-directory-order"][0])
    files["pk/f1.py"] = INPUTS["T8-foreign-classes"][0]["pk/m1.py"]
    files["pk/f2.py"] = INPUTS["T8-foreign-classes"][0]["pk/m2.py"]
    files["pk/opt.py"] = "def opt(x: int = None) -> int:  # type: ignore[assignment]\n    return 1\n"
    d = fresh_dir("w")
    try:
        write_tree(d / "in", files)
        (d / "elsewhere").mkdir()
        # a working directory that holds configuration files of the type checker (they change how 'x: int = None' is read)
        (d / "cfg").mkdir()
        (d / "cfg" / "mypy.ini").write_text("[mypy]\nimplicit_optional = True\n")
        (d / "cfg2" / "deep").mkdir(parents=True)
        (d / "cfg2" / "setup.cfg").write_text("[mypy]\nimplicit_optional = True\n")
        (d / "cfg2" / ".git").mkdir()
        variants = [
            ("abs", str(d / "in" / "pk"), str(d / "o1"), d, d / "o1", False),
            ("rel", "in/pk", "o2", d, d / "o2", False),
            ("trailing-slash", "in/pk/", "o3/", d, d / "o3", False),
            ("dotdot", "in/../in/pk", "elsewhere/../o4", d, d / "o4", False),
            ("cwd-elsewhere", str(d / "in" / "pk"), "../o5", d / "elsewhere", d / "o5", False),
            ("cwd-src-parent", "pk", str(d / "o6"), d / "in", d / "o6", False),
            ("cwd-with-mypy-ini", str(d / "in" / "pk"), str(d / "o9"), d / "cfg", d / "o9", False),
            ("cwd-below-setup-cfg", str(d / "in" / "pk"), str(d / "o10"), d / "cfg2" / "deep", d / "o10", False),
            ("cache-first", "in/pk", "o7", d, d / "o7", True),
            ("cache-second", "in/pk", "o8", d, d / "o8", True),
        ]
        # the two cache letters run one after the other in the same cwd (the second sees the first's cache); the rest in parallel
        results: dict[str, Obs] = {}
        jobs = [((v[0],), run_cli, (v[1], v[2], Opts(), v[3], None, 180.0, v[5], v[4])) for v in variants if not v[5]]
        run_jobs(jobs, lambda tag, obs: results.__setitem__(tag[0], obs))
        for v in variants:
            if v[5]:
                results[v[0]] = run_cli(v[1], v[2], Opts(), cwd=v[3], out_abs_for_read=v[4], mypy_cache=True)
        # repetition into an output directory that already holds the result of an earlier run
        variants.append(("rerun-into-same-out", str(d / "in" / "pk"), str(d / "o1"), d, d / "o1", False))
        results["rerun-into-same-out"] = run_cli(str(d / "in" / "pk"), str(d / "o1"), Opts(), cwd=d, out_abs_for_read=d / "o1")
        ref = None
        for vname, *_ in variants:
            obs = results[vname]
            rep.case(f"real-run:{vname}", True)
            if obs.outcome != "completed":
                rep.violation("run-completes", f"run:{obs.crash_sig()}|real-run:{vname}", {"variant": vname, "exc": obs.exc_msg, "tb": obs.exc_tb[-400:]}, files=files, src_rel="pk", opts=Opts())
                continue
            if ref is None:
                ref = obs
            elif obs.files != ref.files:
                diff = sorted(k for k in set(obs.files) | set(ref.files) if obs.files.get(k) != ref.files.get(k))
                rep.violation("same-output-for-every-spelling-cwd-repetition", f"real-run:{vname}", {"variant": vname, "files_differ": diff[:5]}, files=files, src_rel="pk", opts=Opts())
            else:
                rep.ok("same-output-for-every-spelling-cwd-repetition")
    finally:
        shutil.rmtree(d, ignore_errors=True)
    rep.rule = (
        "11 inputs with forced ties (two equal-depth re-exporters, equal short names, three TypeVars, inferred tuple results, a module star-imported by several packages, 3-member unions/literals, 4 TODO markers, foreign classes from several libraries, modules spread over directories): "
        f"every schedule with <= 1 deviation (thorough: <= 2 on 4 inputs, second option set, every 9th doubly re-exporting C03 tree) at the choice points 'iteration of a tool-built set with >=2 elements' and 'listing of a package directory with >=2 entries' (all n! orders for n<=3, rotations+reversal above); "
        f"{K} real interpreter runs per input with PYTHONHASHSEED=0..{K - 1}; 11 real runs over path spellings / working directories (also ones holding type-checker configuration files) / repetition with mypy's cache / repetition into the same output directory; distinct = one exploration per (input, options)"
    )
    rep.assumptions = [
        "sets are owned by injecting an order-controlled subclass under the name 'set' into the tool's modules; the one set comprehension in the sources (inventory in evidence) is sorted by the tool on the next line",
        "every offered order of a small set of strings/objects is realisable by CPython for some hash seed / allocation; a violation found by permutation only is labelled permutation-derived, one confirmed by two real seeds seed-confirmed",
        "mypy's and griffe's internal iteration orders are not owned; the hash-seed probe covers them",
    ]
