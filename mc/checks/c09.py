"""C09 - naming conversion renames consistently and keeps Python names recoverable (E1 pairs; L4 + L1)."""

from __future__ import annotations

import itertools
import re

from ..driver import Obs, Opts
from ..explore import run_packed
from ..pkg import PKG, index_stubs
from ..report import Report
from ..sds_parser import SdsDecl, SdsModule, SdsType, render_expr
from ..tree import enumerate_trees, pack_trees
from .c02 import PY_KEYWORDS, render_position

ID_RE = re.compile(r"^[_a-zA-Z][_a-zA-Z0-9]*$")

# ------------------------------------------------------------------------------------------------ function level


def function_level(rep: Report, tier: str) -> None:
    from safeds_stubgen.stubs_generator._helper import NamingConvention, _convert_name_to_convention

    conv = _convert_name_to_convention
    maxlen = 6 if tier == "quick" else 7
    alphabet = "abA1_"
    n = 0
    for length in range(1, maxlen + 1):
        for tup in itertools.product(alphabet, repeat=length):
            name = "".join(tup)
            if name[0] == "1":
                continue
            n += 1
            # signature feature: what about the identifier can matter to the conversion
            if not any(c.isalpha() for c in name):
                shape = "no-letter"
            elif re.match(r"_+[0-9]", name):
                shape = "digit-after-leading-underscores"
            elif re.search(r"_[0-9]", name):
                shape = "regular:underscore-digit-inside"
            else:
                shape = "regular"
            rep.case("id:" + name, True, sample={"identifier": name} if n % 3001 == 0 else None)
            for is_class in (False, True):
                kind = "class" if is_class else "other"

                def viol(clause, detail, kind=kind, shape=shape, name=name) -> None:
                    rep.violation(clause, f"fn:{clause}:{kind}:{shape}", {"identifier": name, "as": kind, **detail})

                if conv(name, NamingConvention.PYTHON, is_class) != name:
                    viol("python-convention-identity", {"got": conv(name, NamingConvention.PYTHON, is_class)})
                else:
                    rep.ok("python-convention-identity")
                out = conv(name, NamingConvention.SAFE_DS, is_class)
                has_letter = any(c.isalpha() for c in name)
                if has_letter and not ID_RE.match(out):
                    viol("result-is-identifier", {"got": out})
                elif has_letter:
                    rep.ok("result-is-identifier")
                elif not ID_RE.match(out):
                    # no letter at all ('_', '__', '_1', '_1_1'): the statement cannot be met by any camel-casing; reported under one signature
                    rep.violation("result-is-identifier", f"fn:result-is-identifier:{kind}:no-letter", {"identifier": name, "got": out})
                if re.search(r"[a-zA-Z0-9]_+[a-zA-Z0-9]", out):
                    viol("no-inner-underscore", {"got": out})
                else:
                    rep.ok("no-inner-underscore")
                first_in = next((c for c in name if c.isalpha()), None)
                first_out = next((c for c in out if c.isalpha()), None)
                if first_in is not None and first_out is not None:
                    # (lowerCamelCase starts with a lower-case letter whatever the Python name starts with)
                    good = first_out.isupper() if is_class else first_out.islower()
                    if good:
                        rep.ok("first-letter-case")
                    elif not is_class and first_in.isupper():
                        # the Python name itself starts with a capital letter and the conversion keeps it
                        rep.violation("first-letter-case", "fn:first-letter-case:other:leading-capital-kept", {"identifier": name, "as": kind, "got": out})
                    else:
                        viol("first-letter-case", {"got": out})
                try:
                    twice = conv(out, NamingConvention.SAFE_DS, is_class) if out else out
                    if twice != out:
                        viol("idempotent", {"once": out, "twice": twice})
                    else:
                        rep.ok("idempotent")
                except Exception as e:  # noqa: BLE001
                    viol("idempotent", {"once": out, "exception": repr(e)})
    # dotted paths: per segment, same number of segments
    segs = ["a", "a_b", "_a", "A_b", "a_", "ab"]
    for k in (2, 3):
        for combo in itertools.product(segs, repeat=k):
            path = ".".join(combo)
            rep.case("path:" + path, True)
            out = conv(path, NamingConvention.SAFE_DS)
            want = ".".join(conv(s, NamingConvention.SAFE_DS) for s in combo)
            feat = "private-segment" if any(s.startswith("_") or s.endswith("_") for s in combo[1:]) or combo[0].endswith("_") else "plain"
            if out.count(".") != path.count("."):
                rep.violation("path-segment-count", f"fn:path-segment-count:{feat}", {"path": path, "got": out})
            elif out != want:
                rep.violation("path-per-segment", f"fn:path-per-segment:{feat}", {"path": path, "got": out, "per_segment": want})
            else:
                rep.ok("path-per-segment")
    rep.extra["identifiers"] = n


# -------------------------------------------------------------------------------------------------- end to end

SHAPES = [
    "a", "ab", "a_b", "a_b_c", "_a", "a_", "_a_b", "__a__", "a__b", "a_1", "a1", "A_b", "aB", "a_B", "Ab_cd", "AB", "ab_CD", "x_y1_z", "val_", "in_", "sub_class", "class_", "fun_x",
    "my_name", "myName", "my_name_", "a_b_", "_1", "_", "__", "result_1", "param_1", "ABC_DEF", "a_bc_d", "http_url", "n_", "T_co", "t_co",
    # Safe-DS keywords that are ordinary Python identifiers: escaping them (back-quotes) is no renaming
    "schema", "val", "sub", "literal",
]  # fmt: skip
POSITIONS = [
    "function", "method", "class", "nested_class", "parameter", "ctor_parameter", "class_attr", "inst_attr", "property", "doc_result_name",
    "enum", "enum_member", "type_parameter", "class_type_parameter", "ctor_type_parameter", "imported_class", "module_name", "package_name", "superclass",
]  # fmt: skip
COLLIDING = [("a_b", "aB"), ("my_name", "myName")]


def type_str(ty: SdsType | None, name_map: dict[str, str]) -> str:
    if ty is None:
        return "-"
    if ty.kind == "named":
        s = name_map.get(ty.name, ty.name)
        if ty.args:
            s += "<" + ", ".join(type_str(a, name_map) for a in ty.args) + ">"
    elif ty.kind == "union":
        s = "union<" + ", ".join(sorted(type_str(a, name_map) for a in ty.args)) + ">"
    elif ty.kind == "literal":
        s = "literal<" + ", ".join(render_expr(e) for e in ty.literals) + ">"
    elif ty.kind == "callable":
        s = "(" + ", ".join(type_str(p.type, name_map) for p in ty.params) + ")->(" + ", ".join(type_str(r.type, name_map) for r in ty.results) + ")"
    else:
        s = "unknown"
    return s + ("?" if ty.nullable else "")


def synth(n: str) -> str:
    """result_1 / result1 / param_1 / param1 are synthesised names (don't-care): unify."""
    m = re.fullmatch(r"(result|param)_?(\d+)", n)
    return f"{m.group(1)}#{m.group(2)}" if m else n


def canon_decl(d: SdsDecl, name_map: dict[str, str], norm: bool = False, depth: int = 0) -> tuple:
    """norm=True: type-parameter NAMES are replaced by their position (type parameters carry no Python-name annotation -
    a recorded finding), so that everything else about type parameters (how many, on which declaration, variance, bound,
    where they are used) is still compared."""
    if norm:
        name_map = {**name_map, **{tp.name: f"#{depth}.{k}" for k, tp in enumerate(d.type_params)}}
    return (
        d.kind, d.py_name, d.static,
        tuple((tp.variance, name_map.get(tp.name, tp.name), type_str(tp.bound, name_map)) for tp in d.type_params),
        tuple((p.py_name, type_str(p.type, name_map), render_expr(p.default) if p.default else None) for p in (d.params or [])) if d.params is not None else None,
        tuple((synth(r.py_name), type_str(r.type, name_map)) for r in (d.results or [])) if d.results is not None else None,
        tuple(type_str(p, name_map) for p in d.parents),
        type_str(d.type, name_map) if d.kind == "attr" else None,
        tuple(sorted(d.todos)),
        tuple(canon_decl(m, name_map, norm, depth + 1) for m in d.members),
    )  # fmt: skip


def canon_module(m: SdsModule, name_map: dict[str, str], norm: bool = False) -> tuple:
    return (m.py_module, len(m.imports), tuple(canon_decl(d, name_map, norm) for d in m.decls))


def name_map_of(mods: list[SdsModule]) -> dict[str, str]:
    mp: dict[str, str] = {}
    for m in mods:
        for _, d in m.walk():
            if d.kind in ("class", "enum"):
                mp[d.name] = d.py_name
            for tp in d.type_params:
                mp.setdefault(tp.name, tp.name)
    return mp


def annotations_ok(m: SdsModule, convert: bool) -> list[tuple[str, str, dict]]:
    out = []
    has_pm = any(a[0] == "PythonModule" for a in m.annotations)
    if not convert and has_pm:
        out.append(("off-verbatim", "PythonModule", {"file": m.filename}))
    if convert and has_pm != (m.py_module != m.package):
        out.append(("python-module-iff-differs", "module", {"file": m.filename, "package": m.package, "py": m.py_module}))
    if convert and has_pm and m.py_module == m.package:
        out.append(("python-module-iff-differs", "redundant", {"file": m.filename}))
    for _, d in m.walk():
        items = [(d.kind, d.name, d.py_name, d.annotations)] + [("param", p.name, p.py_name, p.annotations) for p in (d.params or [])]
        for kind, name, py, anns in items:
            has = any(a[0] == "PythonName" for a in anns)
            if not convert and has:
                out.append(("off-verbatim", f"PythonName:{kind}", {"file": m.filename, "name": name}))
            if has and py == name:
                out.append(("python-name-iff-differs", f"redundant:{kind}", {"file": m.filename, "name": name}))
            # with the flag on the rendered name IS the converted Python name (the converter itself is judged at function level;
            # enum declarations are left out: the statement lists enum members, not enums)
            if convert and kind in ("class", "fun", "attr", "variant", "param"):
                from safeds_stubgen.stubs_generator._helper import NamingConvention, _convert_name_to_convention

                want = _convert_name_to_convention(py, NamingConvention.SAFE_DS, is_class_name=(kind == "class"))
                if want and name != want:
                    out.append(("rendered-name-is-converted-name", f"{kind}", {"file": m.filename, "python_name": py, "rendered": name, "converted": want}))
    return out


def run(rep: Report, tier: str, seed: int) -> None:
    function_level(rep, tier)

    # ---- end to end: identifier shapes x positions, each input generated with the flag off and on
    units: list[tuple[str, str, dict[str, str], str]] = []
    uid = itertools.count(1)
    for pos in POSITIONS:
        for sh in SHAPES:
            if sh in PY_KEYWORDS or (pos in ("class", "nested_class", "imported_class", "superclass", "enum") and sh in ("_", "__")):
                continue
            u = f"{next(uid):05d}"
            units.append((f"{pos}:{sh}", f"{pos}:{sh}", render_position(pos, sh, u), u))
    for pos in ("function", "parameter", "class_attr", "method"):
        for a, b in COLLIDING:
            u = f"{next(uid):05d}"
            if pos == "function":
                fs = {f"m{u}.py": f"def {a}() -> int:\n    ...\n\n\ndef {b}() -> int:\n    ...\n"}
            elif pos == "parameter":
                fs = {f"m{u}.py": f"def f{u}({a}: int, {b}: int) -> None:\n    ...\n"}
            elif pos == "class_attr":
                fs = {f"m{u}.py": f"class C{u}:\n    {a}: int = 1\n    {b}: int = 2\n"}
            else:
                fs = {f"m{u}.py": f"class C{u}:\n    def {a}(self) -> int:\n        ...\n\n    def {b}(self) -> int:\n        ...\n"}
            units.append((f"collide:{pos}:{a}/{b}", f"collide:{pos}", fs, u))
    # several lower-case classes of ONE other library: they share one placeholder stub file (first written, rest appended)
    u = f"{next(uid):05d}"
    units.append(("foreign:datetime-classes", "foreign:several-classes-of-one-module", {f"m{u}.py": f"import datetime\n\n\ndef f{u}(a: datetime.date, b: datetime.datetime, c: datetime.timedelta, d: datetime.time) -> None:\n    ...\n"}, u))
    specs = enumerate_trees("quick") if tier == "thorough" else enumerate_trees("quick")[::6]
    rep.rule = (
        f"function level: every legal identifier of length <= {6 if tier == 'quick' else 7} over {{a,b,A,1,_}} as class and as non-class name, dotted paths of 2-3 segments over 6 segment shapes;"
        f" end to end: {len(SHAPES)} identifier shapes x {len(POSITIONS)} positions (+ pairs of names that convert to the same spelling) and {len(specs)} C03 trees, each generated with the flag off and on and compared; distinct = distinct case label"
    )
    results: dict[tuple, dict[bool, Obs]] = {}

    def build(us):
        files = {f"{PKG}/__init__.py": ""}
        for x in us:
            if isinstance(x, tuple):
                for rel, text in x[2].items():
                    files[f"{PKG}/{rel}"] = text
            else:
                files.update(x.files)
        return files, PKG

    def judge(us, off: Obs, on: Obs) -> None:
        ioff, ion = index_stubs(off), index_stubs(on)
        map_off, map_on = name_map_of(list(ioff.modules.values())), name_map_of(list(ion.modules.values()))
        # group stub files per unit by the unit tag in path or py_module
        def tag_of(x) -> str:
            return x[3] if isinstance(x, tuple) else f"t{x.T}"

        def label_of(x) -> tuple[str, str]:
            return (x[0], x[1]) if isinstance(x, tuple) else ("tree:" + x.label, "tree:" + x.label.split("|")[0] + "|" + "|".join(x.label.split("|")[2:]))

        # stub files that belong to no unit (placeholder stubs of other libraries) are judged on their own
        tags = [tag_of(x) for x in us]
        for convert, ix in ((False, ioff), (True, ion)):
            for path, m in ix.modules.items():
                if any(t in path or t in m.py_module for t in tags):
                    continue
                for clause, f2, detail in annotations_ok(m, convert):
                    rep.violation(clause, f"{clause}:{f2}|placeholder-stub", {"file": path, **detail}, files=None, src_rel=PKG, opts=Opts(convert=convert))
        for x in us:
            tag = tag_of(x)
            label, feat = label_of(x)
            rep.case(label, True, sample={"case": label} if hash(label) % 293 == 0 else None)
            if any(tag in p for p in ioff.errors) or any(tag in p for p in ion.errors):
                rep.extra["unparsable_units(C02)"] = rep.extra.get("unparsable_units(C02)", 0) + 1
                continue
            moff = {m.py_module: m for p, m in ioff.modules.items() if tag in p or tag in m.py_module}
            mon = {m.py_module: m for p, m in ion.modules.items() if tag in p or tag in m.py_module}
            mini = build([x])[0]

            def viol(clause, f2, detail, feat=feat, mini=mini, label=label) -> None:
                rep.violation(clause, f"{clause}:{f2}|{feat}", {"case": label, **detail}, files=mini, src_rel=PKG, opts=Opts(convert=True))

            for m in moff.values():
                for clause, f2, detail in annotations_ok(m, False):
                    viol(clause, f2, detail)
            for m in mon.values():
                for clause, f2, detail in annotations_ok(m, True):
                    viol(clause, f2, detail)
            if set(moff) != set(mon):
                viol("same-python-modules", "file-set", {"off": sorted(moff), "on": sorted(mon)})
                continue
            rep.ok("same-python-modules")
            # type references are mapped through the declarations of THIS unit only (two units may declare classes whose
            # converted names coincide)
            umap_off, umap_on = name_map_of(list(moff.values())), name_map_of(list(mon.values()))
            for pm in moff:
                a, b = canon_module(moff[pm], umap_off), canon_module(mon[pm], umap_on)
                if a == b:
                    rep.ok("recovered-equal")
                    continue
                # differences that vanish when type-parameter names are replaced by positions are name-only differences
                an, bn = canon_module(moff[pm], umap_off, True), canon_module(mon[pm], umap_on, True)
                if an == bn:
                    viol("recovered-equal", "type_params", {"module": pm, "off": str(a)[:500], "on": str(b)[:500]})
                    continue
                a, b = an, bn
                # locate the first difference for the signature
                where = "module"
                da, db = a[2], b[2]
                if a[1] != b[1]:
                    where = "import-count"
                elif len(da) != len(db):
                    where = "decl-count"
                else:
                    for x1, x2 in zip(da, db, strict=True):
                        if x1 != x2:
                            fields = ["kind", "py_name", "static", "type_params", "params", "results", "parents", "type", "todos", "members"]
                            where = next((fields[i] for i in range(len(fields)) if x1[i] != x2[i]), "?")
                            break
                if where == "type_params":
                    where = "type_params-structure"  # names were normalised away above
                viol("recovered-equal", where, {"module": pm, "off": str(a)[:500], "on": str(b)[:500]})

    def on_group(us, opts: Opts, obs: Obs, files) -> None:
        key = tuple(id(x) for x in us)
        if obs.outcome != "completed":
            if len(us) == 1:
                rep.case("crashed:" + (us[0][0] if isinstance(us[0], tuple) else us[0].label))
                lb = us[0][1] if isinstance(us[0], tuple) else "tree"
                rep.violation("run-completes", f"run:{obs.outcome}:{obs.crash_sig()}|{lb}|{'nc' if opts.convert else 'py'}", {"exc": obs.exc_type + ": " + obs.exc_msg, "tb": obs.exc_tb[-500:]}, files=files, src_rel=PKG, opts=opts, obs=obs)
            return
        slot = results.setdefault(key, {})
        slot[opts.convert] = obs
        if len(slot) == 2:
            judge(us, slot[False], slot[True])
            del results[key]

    groups = []
    allu: list = list(units) + list(specs)
    for i in range(0, len(allu), 100):
        chunk = allu[i : i + 100]
        groups.append((chunk, Opts(convert=False, docstyle="NUMPYDOC")))
        groups.append((chunk, Opts(convert=True, docstyle="NUMPYDOC")))
    stats: dict[str, int] = {}
    run_packed(groups, build, on_group, stats)
    rep.extra.update(stats)
    rep.extra["unpaired_groups"] = len(results)
    rep.extra["e2e_units"] = len(units)
    rep.extra["trees"] = len(specs)
    rep.assumptions = [
        "synthesised names (result_N, param_N) are unified; names inside documentation text are ignored",
        "type references are mapped to Python names through the declarations of the same run; import lines are compared by count only (resolution is C11's)",
    ]
