"""C01 - every analysable package is processed to completion under every option set (E1 over forms x option sets)."""

from __future__ import annotations

import itertools
import shutil

from ..driver import ALL_OPTS, Obs, Opts, fresh_dir, run_cli, write_tree
from ..explore import run_packed
from ..pkg import PKG
from ..report import Report
from .c01_forms import FORMS, render


def family(name: str) -> str:
    return name


def run(rep: Report, tier: str, seed: int) -> None:
    names = list(FORMS)
    units = {n: (n, render(n, f"{i:04d}")) for i, n in enumerate(names)}

    def build(us):
        files = {f"{PKG}/__init__.py": ""}
        for n, fs in us:
            for rel, text in fs.items():
                files[f"{PKG}/{rel}"] = text
        return files, PKG

    outcome: dict[tuple[str, str], Obs] = {}  # (form, options key) -> observation of the run that judged it

    def record(us, opts: Opts, obs: Obs, files) -> None:
        for n, fs in us:
            outcome[(n, opts.key())] = obs
            rep.case(f"{n}|{opts.key()}", True, sample={"form": n, "options": opts.key(), "files": fs} if hash(n + opts.key()) % 1201 == 0 else None)
            if obs.outcome in ("completed", "rejected"):
                rep.ok("completes-or-documented-rejection")
                continue
            if obs.outcome == "outside_domain":
                rep.outside_domain += 1
                continue
            if len(us) > 1:
                continue  # cannot happen: run_packed bisects
            mini = build([(n, fs)])[0]
            rep.violation(
                "completes-or-documented-rejection", f"{obs.outcome}:{obs.crash_sig()}|{family(n)}|{opts.docstyle if n.startswith(('doc:', 'doctype:')) or 'named-like-module' in n else '*'}",
                {"form": n, "options": opts.key(), "exception": f"{obs.exc_type}: {obs.exc_msg}", "traceback_tail": obs.exc_tb[-700:]}, files=mini, src_rel=PKG, opts=opts, obs=obs,
            )
        if obs.outcome == "completed" and len(us) > 1:
            api = obs.api()
            if api is None:
                rep.violation("api-json-written", "api-json:missing-or-invalid", {"options": opts.key()}, files=files, src_rel=PKG, opts=opts)
            else:
                rep.ok("api-json-written")

    stats: dict[str, int] = {}
    # ---- phase 1: default options, everything packed, crashes bisected to the culprit letter
    run_packed([(list(units.values()), Opts())], build, record, stats)
    crashers = sorted({n for (n, k), o in outcome.items() if o.outcome not in ("completed", "rejected")})
    safe = [units[n] for n in names if n not in crashers]
    rep.extra["letters_not_completing_under_default_options"] = crashers

    # ---- phase 1b: every single-file letter TWICE inside one module (per-module analysis state: visited sets, caches, name tables)
    twice = []
    for i, n in enumerate(names):
        if isinstance(FORMS[n], str) and n not in crashers:
            ta, tb = next(iter(render(n, f"d{i:04d}a").values())), next(iter(render(n, f"d{i:04d}b").values()))
            if "from __future__" in tb:
                tb = tb.replace("from __future__ import annotations\n", "")
            twice.append((f"twice:{n}", {f"dd{i:04d}.py": ta + "\n\n" + tb}))
    for o in (Opts(), Opts(docstyle="NUMPYDOC", convert=True)):
        run_packed([(twice, o)], build, record, stats)
    rep.extra["twice_units"] = len(twice)

    # ---- phase 2: docstring styles x naming conversion: letters that failed before run alone, the rest packed (bisect on new failures)
    combos = [Opts(docstyle=d, convert=c) for d in ("NUMPYDOC", "GOOGLE", "REST", "PLAINTEXT") for c in (False, True)]
    combos = [o for o in combos if o != Opts()]
    groups = []
    for o in combos:
        groups.append((safe, o))
        groups += [([units[n]], o) for n in crashers]
    run_packed(groups, build, record, stats)

    # ---- phase 3: all 64 option combinations on the packed package
    done = {o.key() for o in [Opts(), *combos]}
    rest = [o for o in ALL_OPTS if o.key() not in done]
    still_safe = [units[n] for n in names if all(outcome.get((n, k), Obs("completed")).outcome in ("completed", "rejected") for k in done)]
    sweep = rest if tier == "thorough" else rest
    run_packed([(still_safe, o) for o in sweep], build, record, stats)
    if tier == "thorough":
        run_packed([([units[n]], o) for o in rest for n in names if units[n] not in still_safe], build, record, stats)

    # ---- phase 4 (thorough): ordered pairs of single-file letters inside ONE module
    if tier == "thorough":
        single = [n for n in names if isinstance(FORMS[n], str) and n not in crashers and not n.startswith(("default:", "return:"))]
        pair_units = []
        k = 0
        for a, b in itertools.permutations(single, 2):
            k += 1
            fa, fb = render(a, f"p{k:05d}a"), render(b, f"p{k:05d}b")
            text_a, text_b = next(iter(fa.values())), next(iter(fb.values()))
            if "from __future__" in text_b:
                text_a, text_b = text_b, text_a
            pair_units.append((f"pair:{a}+{b}", {f"pp{k:05d}.py": text_a + "\n\n" + text_b}))
        groups = [(pair_units[i : i + 3000], Opts()) for i in range(0, len(pair_units), 3000)]
        run_packed(groups, build, record, stats)
        rep.extra["pair_units"] = len(pair_units)

    # ---- phase 5: the console script itself (exit status, documented rejection, termination within the limit)
    d = fresh_dir("e")
    try:
        files, _ = build(still_safe)
        write_tree(d / "in", files)
        for o in (Opts(), Opts(docstyle="NUMPYDOC", convert=True, testrun=True, tsp="DOCSTRING", tsw="IGNORE")):
            obs = run_cli(str(d / "in" / PKG), str(d / ("out" + o.docstyle)), o, cwd=d, timeout=600)
            rep.case(f"cli:packed|{o.key()}", True)
            if obs.outcome != "completed":
                rep.violation("completes-or-documented-rejection", f"cli:{obs.outcome}:{obs.crash_sig()}|packed", {"options": o.key(), "exception": f"{obs.exc_type}: {obs.exc_msg}", "stderr_tail": obs.exc_tb[-600:]}, files=files, src_rel=PKG, opts=o, obs=obs)
            elif f"{PKG}__api.json" not in obs.files:
                rep.violation("api-json-written", "cli:api-json-missing", {"options": o.key(), "files": sorted(obs.files)[:10]})
            else:
                rep.ok("cli-completes")
        rejections = {
            "only-init": {"rj/__init__.py": "X = 1\n"},
            "only-test-dirs": {"rj/__init__.py": "", "rj/tests/__init__.py": "", "rj/tests/test_a.py": "def test_a():\n    pass\n", "rj/docs/conf.py": "x = 1\n"},
            "empty-dir": {"rj/readme.txt": "nothing"},
            "no-init-at-all": {"rj/a.py": "def f() -> int:\n    return 1\n", "rj/sub/b.py": "def g() -> int:\n    return 1\n"},
            "two-top-packages": {"rj/p1/__init__.py": "", "rj/p1/a.py": "def f() -> int:\n    return 1\n", "rj/p2/__init__.py": "", "rj/p2/b.py": "def g() -> int:\n    return 2\n"},
        }
        for name, fs in rejections.items():
            shutil.rmtree(d / "in2", ignore_errors=True)
            write_tree(d / "in2", fs)
            for o in (Opts(), Opts(docstyle="NUMPYDOC")):
                obs = run_cli(str(d / "in2" / "rj"), str(d / ("outr" + name + o.docstyle)), o, cwd=d, timeout=300)
                rep.case(f"cli:{name}|{o.key()}", True, sample={"input": name, "outcome": obs.outcome, "message": obs.exc_msg})
                if obs.outcome in ("completed", "rejected"):
                    rep.ok("completes-or-documented-rejection")
                else:
                    rep.violation("completes-or-documented-rejection", f"cli:{obs.outcome}:{obs.crash_sig()}|{name}|{o.docstyle}", {"input": name, "options": o.key(), "exception": f"{obs.exc_type}: {obs.exc_msg}", "stderr_tail": obs.exc_tb[-600:]}, files={"rj/" + k.split("/", 1)[1]: v for k, v in fs.items()}, src_rel="rj", opts=o, obs=obs)
    finally:
        shutil.rmtree(d, ignore_errors=True)
    rep.extra.update(stats)
    rep.extra["forms"] = len(names)
    rep.rule = (
        f"{len(names)} declaration / tree / docstring forms (parameters and defaults of every expression class, un-annotated returns of every expression class in functions and methods, 50 annotation constructs in 4 positions, 30 class forms, 20 attribute forms, 22 function forms, 18 module/tree forms, 15 docstring forms): "
        "each alone in a module; packed under default options with bisection to the culprit; under the 8 (docstring style x naming) combinations; the packed package under all 64 option combinations; "
        + ("failing letters alone under all 64; all ordered pairs of single-file letters inside one module; " if tier == "thorough" else "")
        + "console-script runs incl. 5 degenerate inputs; distinct = distinct (form, option set)"
    )
    rep.assumptions = [
        "inputs mypy refuses with a blocking error are outside the domain (counted, not judged)",
        f"'never fails to terminate' is decided up to {600}s per run (SIGALRM in the worker / subprocess timeout)",
    ]
