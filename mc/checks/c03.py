"""C03 - every public declaration appears in the stubs exactly once (E1 over trees, DESIGN.md 6/C03)."""

from __future__ import annotations

from ..driver import Opts
from ..pkg import PKG
from ..report import Report
from ..tree import GDecl, TreeSpec, enumerate_trees, pack_trees, run_trees


def matches(idx, g: GDecl):
    """Stub declarations that denote ground-truth declaration g: same Python name (or public alias), compatible kind."""
    out = []
    for nm in {g.name, *g.aliases}:
        for path, chain, d in idx.find(nm, g.stub_kind):
            out.append((path, chain, d))
    return out


def chain_ok(g: GDecl, chain: tuple[str, ...], owner_aliases: set[str]) -> bool:
    if len(chain) != len(g.chain):
        return False
    for i, (a, b) in enumerate(zip(chain, g.chain, strict=True)):
        if a != b and not (i == 0 and a in owner_aliases):
            return False
    return True


def where(s: TreeSpec, g: GDecl) -> str:
    kind = "dunder_method" if g.name.startswith("__") else g.kind
    return f"{g.letter}:{kind}{':nested' if len(g.chain) > 1 else ''}{':init' if g.in_init else ''}"


def run(rep: Report, tier: str, seed: int) -> None:
    specs = enumerate_trees(tier)
    rep.rule = (
        "trees: one module at depth 1 or 2 (module and sub-package public or private), declaration-letter subsets of size<=2 over 9 letters"
        " (public/private function, public class with 21 member kinds incl. tuple-assigned attributes, overloaded and static overloaded methods, property with setter; private class, enum, private enum, exception class, overloaded function, generic class with type-variable typed members),"
        " an equally named module in a descendant package, an unrelated sibling package that imports a declaration, declarations in __init__, "
        "10 re-export forms at every ancestor __init__ (quick: one re-export, chains, same form twice; thorough: all pairs + larger subsets); distinct = distinct tree label"
    )
    by_tid = {s.tid: s for s in specs}
    del by_tid

    def judge(s: TreeSpec, opts: Opts, idx, api, obs) -> None:
        owners = {g.name: g for g in s.decls if not g.chain}
        for g in s.decls:
            if not g.public or g.dont_care:
                continue
            hits = matches(idx, g)
            # members: only count hits whose chain fits (dunder names like __call__ are not unique across trees)
            if g.chain:
                owner = owners.get(g.chain[0])
                hits = [h for h in hits if chain_ok(g, h[1], owner.aliases if owner else set()) and (h[0].startswith(f"{PKG}/t{s.T}/") or f"t{s.T}" in h[0])]
            tag = where(s, g)

            def viol(clause: str, detail: dict, g=g, tag=tag) -> None:
                rep.violation(
                    clause, f"{clause}:{tag}|{s.label.split('|')[0]}{'+shadow' if s.shadow else ''}|root:{s.r_root}|sub:{s.r_sub}",
                    {"tree": s.label, "decl": g.api_id, "aliases": sorted(g.aliases), "stub_files": sorted(p for p in obs.stubs() if f"t{s.T}" in p), **detail},
                    files=pack_trees([s])[0], src_rel=PKG, opts=opts,
                )

            if not hits:
                viol("present", {})
                continue
            rep.ok("present")
            if len(hits) > 1:
                viol("once", {"found_in": [h[0] for h in hits]})
                continue
            rep.ok("once")
            path, chain, d = hits[0]
            pym = idx.modules[path].py_module
            if not g.chain and chain:
                viol("location", {"observed_chain": chain})
            elif pym not in g.locations:
                viol("location", {"file": path, "announces": pym, "allowed": sorted(g.locations)})
            else:
                rep.ok("location")

    stats = run_trees(rep, specs, [Opts()], judge)
    rep.extra.update(stats)
    rep.extra["trees"] = len(specs)
    rep.extra["public_decls_judged"] = sum(1 for s in specs for g in s.decls if g.public)

    # ---- explicit inputs: declarations of one module next to constructs in OTHER modules that refer to that module
    from ..explore import run_packed
    from ..pkg import index_stubs

    explicit = {
        # a NewType / functional namedtuple of the module is used as a type elsewhere (handled like a foreign class)
        "newtype-used-elsewhere": ({"ex1/__init__.py": "", "ex1/ids.py": "from collections import namedtuple\nfrom typing import NewType\n\nUserIdx1 = NewType(\"UserIdx1\", int)\nPairx1 = namedtuple(\"Pairx1\", \"a b\")\n\n\ndef make_idx1(a: int) -> int:\n    return a\n\n\nclass Registryx1:\n    sizex1: int = 0\n\n    def lookupx1(self, k: int) -> int:\n        return k\n",
                                    "ex1/use.py": "from .ids import Pairx1, UserIdx1\n\n\ndef find_userx1(u: UserIdx1, p: Pairx1) -> UserIdx1:\n    return u\n"},
                                   [("fun", "make_idx1"), ("class", "Registryx1"), ("attr", "sizex1"), ("fun", "lookupx1"), ("fun", "find_userx1")]),
        # an enum / a class of the module used as a type and as a superclass in two other modules
        "types-used-elsewhere": ({"ex2/__init__.py": "", "ex2/base.py": "from enum import Enum\n\n\nclass Kindx2(Enum):\n    AX2 = 1\n\n\nclass Shapex2:\n    def areax2(self) -> int:\n        return 1\n\n\ndef helperx2(k: Kindx2) -> Shapex2:\n    return Shapex2()\n",
                                  "ex2/a.py": "from .base import Kindx2, Shapex2\n\n\nclass Squarex2(Shapex2):\n    def sidex2(self, k: Kindx2) -> int:\n        return 1\n",
                                  "ex2/b.py": "from ex2base_alias import *  # type: ignore[import-not-found]  # noqa: F403\nfrom .base import Kindx2, Shapex2\n\n\ndef drawx2(s: Shapex2, k: Kindx2) -> Kindx2:\n    return k\n"},
                                 [("enum", "Kindx2"), ("variant", "AX2"), ("class", "Shapex2"), ("fun", "areax2"), ("fun", "helperx2"), ("class", "Squarex2"), ("fun", "sidex2"), ("fun", "drawx2")]),
        # declarations whose 'def' / 'class' / assignment statement sits in a branch of an if / try / with statement of the
        # module or class body (platform switches, optional dependencies); every name is defined in one branch only
        "defined-under-condition": ({"ex3/__init__.py": "", "ex3/m.py": "import sys\n\nFLAGX3 = len(sys.argv) > 3\n\nif FLAGX3:\n    def onlyifx3(a: int) -> int:\n        return a\nelse:\n    def onlyelsex3(a: int) -> int:\n        return a\n\ntry:\n    def intryx3(a: int) -> int:\n        return a\nexcept ImportError:\n    pass\n\nif FLAGX3:\n    class Condx3:\n        def condmethx3(self) -> int:\n            return 1\n\n\nclass Hostx3:\n    if FLAGX3:\n        def condmx3(self, a: int) -> int:\n            return a\n\n        condax3: int = 1\n\n    def plainx3(self) -> int:\n        return 1\n"},
                                    [("fun", "onlyifx3"), ("fun", "onlyelsex3"), ("fun", "intryx3"), ("class", "Condx3"), ("fun", "condmethx3"), ("class", "Hostx3"), ("fun", "condmx3"), ("attr", "condax3"), ("fun", "plainx3")]),
        # a sibling package re-exports declarations of a private module with a two-dot relative import
        "two-dot-relative-reexport": ({"ex5/__init__.py": "", "ex5/corex5/__init__.py": "", "ex5/corex5/_implx5.py": "class Enginex5:\n    def gox5(self) -> int:\n        return 1\n\n\ndef helperx5(a: int) -> int:\n    return a\n",
                                       "ex5/apix5/__init__.py": "from ..corex5._implx5 import Enginex5, helperx5\n", "ex5/apix5/modx5.py": "def plainx5() -> int:\n    return 1\n"},
                                      [("class", "Enginex5"), ("fun", "gox5"), ("fun", "helperx5"), ("fun", "plainx5")]),
        # a sub-package that consists of its __init__.py only (nothing imports it): it re-exports a class of a private module
        "reexporting-package-without-modules": ({"ex6/__init__.py": "", "ex6/_corex6.py": "class Thingx6:\n    def gox6(self) -> int:\n        return 1\n", "ex6/apix6/__init__.py": "from .._corex6 import Thingx6\n",
                                                 "ex6/otherx6.py": "def plainx6() -> int:\n    return 1\n"},
                                                [("class", "Thingx6"), ("fun", "gox6"), ("fun", "plainx6")]),
        # the package re-exports a class by name; a deeper module with the SAME file name declares a class of the SAME name
        "same-module-and-class-name-deeper": ({"ex7/__init__.py": "from .ax7 import Foox7\n", "ex7/ax7.py": "class Foox7:\n    def topx7(self) -> int:\n        return 1\n", "ex7/subx7/__init__.py": "",
                                               "ex7/subx7/ax7.py": "class Foox7:\n    def deepx7(self) -> int:\n        return 1\n"},
                                              [("fun", "topx7"), ("fun", "deepx7")]),
        # a module whose FILE NAME ends with '__init__.py' is an ordinary module
        "module-file-name-ends-with-init": ({"ex8/__init__.py": "", "ex8/my__init__.py": "def initlikex8() -> int:\n    return 1\n\n\nclass InitLikex8:\n    def ilmx8(self) -> int:\n        return 1\n", "ex8/otherx8.py": "def plainx8() -> int:\n    return 1\n"},
                                            [("fun", "initlikex8"), ("class", "InitLikex8"), ("fun", "ilmx8"), ("fun", "plainx8")]),
        # a name defined twice in one body (the later definition is the one Python keeps): one declaration, emitted once
        "redefinition": ({"ex4/__init__.py": "", "ex4/m.py": "def twicex4(a: int) -> int:\n    return a\n\n\ndef twicex4(a: int, b: int) -> int:  # noqa: F811\n    return a\n\n\nclass Dupx4:\n    def onex4(self) -> int:\n        return 1\n\n\nclass Dupx4:  # noqa: F811\n    def twox4(self) -> int:\n        return 1\n\n\nclass Holderx4:\n    def mdupx4(self) -> int:\n        return 1\n\n    def mdupx4(self, a: int) -> int:  # noqa: F811\n        return a\n\n    adupx4: int = 1\n    adupx4: int = 2\n"},
                         [("fun", "twicex4"), ("class", "Dupx4"), ("fun", "twox4"), ("class", "Holderx4"), ("fun", "mdupx4"), ("attr", "adupx4")]),
    }

    def build_e(us):
        files = {f"{PKG}/__init__.py": ""}
        for name in us:
            files.update({f"{PKG}/{k}": v for k, v in explicit[name][0].items()})
        return files, PKG

    def on_e(us, opts, obs, files) -> None:
        if obs.outcome != "completed":
            rep.violation("run-completes", f"run:{obs.outcome}:{obs.crash_sig()}|explicit", {"exc": obs.exc_type + ": " + obs.exc_msg}, files=files, src_rel=PKG, opts=opts, obs=obs)
            return
        idx = index_stubs(obs)
        for name in us:
            rep.case(f"explicit:{name}", True)
            for kind, decl in explicit[name][1]:
                hits = idx.find(decl, kind)
                if len(hits) == 1:
                    rep.ok("present")
                else:
                    rep.violation("present" if not hits else "once", f"{'present' if not hits else 'once'}:explicit:{name}:{kind}", {"input": name, "declaration": decl, "found_in": [h[0] for h in hits]}, files=build_e([name])[0], src_rel=PKG, opts=opts)

    run_packed([(list(explicit), Opts())], build_e, on_e, stats)
    rep.assumptions = [
        "publicity follows the C04 rule computed from the spec (mc/tree.py); a declaration re-exported by a public package __init__ under a public name is public",
        "which of several legitimate locations (own module, re-exporting package) is chosen is not prescribed",
        "trees are analysed as sub-packages of one package; all names carry the tree id so trees cannot interact by name",
    ]
