"""C04 - private declarations never leak into stubs; the API JSON marks exactly them non-public (E1 over trees)."""

from __future__ import annotations

from ..driver import Opts
from ..pkg import PKG
from ..report import Report
from ..tree import TreeSpec, enumerate_trees, name_public, pack_trees, run_trees
from .c03 import chain_ok, where

API_LIST = {"function": "functions", "method": "functions", "static_method": "functions", "class_method": "functions", "property": "functions", "class": "classes", "class_attr": "attributes", "inst_attr": "attributes"}


def run(rep: Report, tier: str, seed: int) -> None:
    specs = enumerate_trees(tier)
    rep.rule = (
        "same trees as C03 (underscore placement at package, module, class, nested class, method and attribute level x 10 re-export forms at every ancestor __init__);"
        " every ground-truth private declaration must be absent from all stubs, no stub declaration may carry a private Python name, and is_public in the API JSON must equal the ground truth; plus C17's hierarchies with private methods / properties / static / class methods / nested classes on private bases, under both namings: nothing shown in a public subclass may carry a private Python name; distinct = distinct tree label"
    )

    def judge(s: TreeSpec, opts: Opts, idx, api, obs) -> None:
        owners = {g.name: g for g in s.decls if not g.chain}
        ctx = f"{s.label.split('|')[0]}{'+shadow' if s.shadow else ''}|root:{s.r_root}|sub:{s.r_sub}"

        def viol(clause: str, tag: str, detail: dict) -> None:
            rep.violation(clause, f"{clause}:{tag}|{ctx}", {"tree": s.label, **detail}, files=pack_trees([s])[0], src_rel=PKG, opts=opts)

        known_names = set()
        for g in s.decls:
            known_names.add(g.name)
            tag = where(s, g)
            # (1) absence of private declarations
            if not g.public and not g.dont_care:
                hits = idx.find(g.name, g.stub_kind)
                if g.chain:
                    owner = owners.get(g.chain[0])
                    hits = [h for h in hits if chain_ok(g, h[1], owner.aliases if owner else set()) and f"t{s.T}" in h[0]]
                if hits:
                    viol("leak", tag, {"decl": g.api_id, "found_in": [h[0] for h in hits]})
                else:
                    rep.ok("leak")
            # (2) is_public in the API JSON
            lst = API_LIST.get(g.kind)
            if lst and not g.dont_care:
                e = api.get(lst, {}).get(g.api_id)
                if e is None:
                    rep.extra["api_entry_missing(C12)"] = rep.extra.get("api_entry_missing(C12)", 0) + 1
                elif bool(e.get("is_public")) != g.public:
                    viol("api-is_public", f"{tag}:{'pub' if g.public else 'priv'}->{'pub' if e.get('is_public') else 'priv'}", {"decl": g.api_id, "expected": g.public, "api": e.get("is_public")})
                else:
                    rep.ok("api-is_public")
        # (3) no stub declaration of this tree carries a private-looking Python name
        for path, m in idx.modules.items():
            if f"t{s.T}" not in path:
                continue
            for chain, d in m.walk():
                if not name_public(d.py_name) and d.py_name not in known_names:
                    viol("private-name-emitted", d.kind, {"name": d.py_name, "file": path})

    stats = run_trees(rep, specs, [Opts()], judge)
    rep.extra.update(stats)

    # ---- private members of private classes that public subclasses inherit (C17's 'extras' hierarchies), both namings:
    # whatever is shown in a subclass, nothing with a private Python name may be among it
    from ..explore import run_packed
    from ..pkg import index_stubs
    from .c17 import enumerate_hierarchies
    from .c17 import render as render_hierarchy

    hs = [(f"{900000 + i:06d}", h) for i, (h, family) in enumerate(x for x in enumerate_hierarchies("quick") if x[1] == "extras")]

    def build_h(us):
        files = {f"{PKG}/__init__.py": ""}
        for u, h in us:
            for rel, text in render_hierarchy(h, u, False).items():
                files[f"{PKG}/{rel}"] = text
        return files, PKG

    def on_h(us, opts, obs, files) -> None:
        nc = "nc" if opts.convert else "py"
        if obs.outcome != "completed":
            rep.violation("run-completes", f"run:{obs.outcome}:{obs.crash_sig()}|hierarchies|{nc}", {"exc": obs.exc_type + ": " + obs.exc_msg}, files=files, src_rel=PKG, opts=opts, obs=obs)
            return
        idx = index_stubs(obs)
        for u, h in us:
            rep.case(f"hierarchy:{u}|{nc}", True)
            bad = [(path, d.kind, d.py_name) for path, m in idx.modules.items() if f"h{u}" in path for _, d in m.walk() if not name_public(d.py_name)]
            if bad:
                rep.violation("private-name-emitted", f"inherited:{bad[0][1]}|{nc}", {"file": bad[0][0], "names": [b[2] for b in bad][:5]}, files=build_h([(u, h)])[0], src_rel=PKG, opts=opts)
            else:
                rep.ok("private-name-emitted")

    run_packed([(hs, Opts()), (hs, Opts(convert=True))], build_h, on_h, stats)
    rep.extra["hierarchies"] = len(hs)

    # ---- names that are SUFFIXES of each other: what is re-exported is decided on whole names, not on string suffixes
    suffix_inputs = {
        "module-name-suffix": ({"sx1/__init__.py": "from ._impl import Helper\n", "sx1/_impl.py": "class Helper:\n    def a(self) -> int:\n        return 1\n",
                                "sx1/_x_impl.py": "class Helper:\n    def secretx1(self) -> int:\n        return 1\n", "sx1/pub.py": "def p() -> int:\n    return 1\n"},
                               ["secretx1"], ["vpkg/sx1/_x_impl/Helper"]),
        "class-name-suffix": ({"sx2/__init__.py": "from ._m import Bar\n", "sx2/_m.py": "class Bar:\n    def b(self) -> int:\n        return 1\n\n\nclass FooBar:\n    def secretx2(self) -> int:\n        return 1\n",
                               "sx2/pub.py": "def p() -> int:\n    return 1\n"},
                              ["secretx2", "FooBar"], ["vpkg/sx2/_m/FooBar"]),
        # private classes (by name / by module) used as TYPES in another module: a reference is not a declaration
        "private-class-used-as-type-elsewhere": ({"sx4/__init__.py": "", "sx4/_engine.py": "class Gearbox:\n    def gsecret(self) -> int:\n        return 1\n\n\nclass _Motor:\n    def msecret(self) -> int:\n        return 1\n",
                                                  "sx4/car.py": "from ._engine import Gearbox, _Motor\n\n\nclass Car:\n    g: Gearbox\n\n    def start(self, m: _Motor) -> Gearbox:\n        return self.g\n\n\nclass Truck(Gearbox):\n    pass\n"},
                                                 ["Gearbox", "_Motor", "gsecret", "msecret"], ["vpkg/sx4/_engine/Gearbox", "vpkg/sx4/_engine/_Motor"]),
        "single-underscore-names-ending-in-dunder": ({"sx5/__init__.py": "", "sx5/mod.py": "def _helper__() -> int:\n    return 1\n\n\nclass CPub5:\n    _attr__: int = 1\n\n    def _m__(self) -> int:\n        return 1\n\n    def __call__(self) -> int:\n        return 1\n\n\nclass _Cls__:\n    def pubm5(self) -> int:\n        return 1\n"},
                                                     ["_helper__", "_attr__", "_m__", "_Cls__", "pubm5"], ["vpkg/sx5/mod/_helper__", "vpkg/sx5/mod/_Cls__", "vpkg/sx5/mod/CPub5/_m__"]),
        "import-inside-a-function-of-init": ({"sx6/__init__.py": "def _lazy6():\n    from ._impl6 import Hidden6\n\n    return Hidden6\n", "sx6/_impl6.py": "class Hidden6:\n    def hm6(self) -> int:\n        return 1\n", "sx6/pub.py": "def p() -> int:\n    return 1\n"},
                                             ["Hidden6", "hm6"], ["vpkg/sx6/_impl6/Hidden6"]),
        "import-under-type-checking-of-init": ({"sx8/__init__.py": "from typing import TYPE_CHECKING\n\nif TYPE_CHECKING:\n    from ._impl8 import Hidden8\n", "sx8/_impl8.py": "class Hidden8:\n    def hm8(self) -> int:\n        return 1\n", "sx8/pub.py": "def p() -> int:\n    return 1\n"},
                                               ["Hidden8", "hm8"], ["vpkg/sx8/_impl8/Hidden8"]),
        # a sub-package imports a module of its PARENT under a public alias; its own private module of the same name stays private
        "parent-module-alias-next-to-same-named-private-sibling": ({"sx9/__init__.py": "", "sx9/_util9.py": "def shared9() -> int:\n    return 1\n", "sx9/sub9/__init__.py": "from .. import _util9 as util9\n",
                                                                    "sx9/sub9/_util9.py": "def secret9() -> int:\n    return 1\n\n\nclass Secret9:\n    def sm9(self) -> int:\n        return 1\n", "sx9/sub9/pub.py": "def p() -> int:\n    return 1\n"},
                                                                   ["secret9", "Secret9", "sm9"], ["vpkg/sx9/sub9/_util9/secret9", "vpkg/sx9/sub9/_util9/Secret9"]),
        # the package imports its private MODULE under a public alias; private declarations elsewhere carry the module's name
        "module-alias-next-to-equally-named-private-declarations": ({"sx10/__init__.py": "from . import _helper10 as helper10\n", "sx10/_helper10.py": "def in_helper10() -> int:\n    return 1\n",
                                                                     "sx10/other.py": "def _helper10() -> int:\n    return 1\n\n\nclass Pub10:\n    _helper10: int = 1\n\n\nclass Pub10b:\n    def _helper10(self) -> int:\n        return 1\n"},
                                                                    ["_helper10"], ["vpkg/sx10/other/_helper10", "vpkg/sx10/other/Pub10b/_helper10"]),
        # a private subclass re-assigns an attribute that its public base class declares
        "inherited-attribute-reassigned-in-private-subclass": ({"sx11/__init__.py": "", "sx11/mod.py": "class Base11:\n    def __init__(self, n: str) -> None:\n        self.name11 = n\n\n\nclass _Priv11(Base11):\n    def __init__(self, o: Base11) -> None:\n        self.name11 = o.name11\n        self.fresh11 = 3\n"},
                                                               ["fresh11", "_Priv11"], ["vpkg/sx11/mod/_Priv11/name11", "vpkg/sx11/mod/_Priv11/fresh11"]),
        "star-reexport-with-all": ({"sx7/__init__.py": "from ._star7 import *\n", "sx7/_star7.py": "__all__ = [\"Listed7\"]\n\n\nclass Listed7:\n    pass\n\n\nclass NotListed7:\n    def nl7(self) -> int:\n        return 1\n", "sx7/pub.py": "def p() -> int:\n    return 1\n"},
                                   ["NotListed7", "nl7"], ["vpkg/sx7/_star7/NotListed7"]),
        "function-name-suffix": ({"sx3/__init__.py": "from ._m import run\n", "sx3/_m.py": "def run() -> int:\n    return 1\n\n\ndef dry_run() -> int:\n    return 1\n\n\ndef rerun() -> int:\n    return 1\n",
                                  "sx3/pub.py": "def p() -> int:\n    return 1\n"},
                                 ["dry_run", "rerun"], ["vpkg/sx3/_m/dry_run", "vpkg/sx3/_m/rerun"]),
    }

    def build_s(us):
        files = {f"{PKG}/__init__.py": ""}
        for name in us:
            files.update({f"{PKG}/{k}": v for k, v in suffix_inputs[name][0].items()})
        return files, PKG

    def on_s(us, opts, obs, files) -> None:
        if obs.outcome != "completed":
            rep.violation("run-completes", f"run:{obs.outcome}:{obs.crash_sig()}|suffix-names", {"exc": obs.exc_type + ": " + obs.exc_msg}, files=files, src_rel=PKG, opts=opts, obs=obs)
            return
        idx = index_stubs(obs)
        api = obs.api() or {}
        publicity = {e["id"]: e.get("is_public") for lst in ("classes", "functions", "attributes") for e in api.get(lst, [])}
        for name in us:
            _, absent, private_ids = suffix_inputs[name]
            rep.case(f"suffix:{name}", True)
            leaked = [(n, path) for n in absent for path, m in idx.modules.items() for _, d in m.walk() if d.py_name == n]
            if leaked:
                rep.violation("leak", f"leak:suffix:{name}", {"leaked": leaked[:4]}, files=build_s([name])[0], src_rel=PKG, opts=opts)
            else:
                rep.ok("leak")
            wrong = [i for i in private_ids if publicity.get(i) is not False]
            if wrong:
                rep.violation("api-is_public", f"api-is_public:suffix:{name}", {"expected_private": wrong, "api": {i: publicity.get(i) for i in wrong}}, files=build_s([name])[0], src_rel=PKG, opts=opts)
            else:
                rep.ok("api-is_public")

    run_packed([(list(suffix_inputs), Opts())], build_s, on_s, stats)
    rep.extra["trees"] = len(specs)
    rep.extra["private_decls_judged"] = sum(1 for s in specs for g in s.decls if not g.public)
    rep.assumptions = [
        "private = leading underscore and not a dunder name, or nested in / defined in something private, unless a public package __init__ re-exports it under a public name (computed in mc/tree.py)",
        "enums, enum members have no is_public field in the API JSON: only absence from stubs is checked for them",
    ]
