"""C13 - docstring text reaches the right element intact, whatever the style.

Part A (E2): explicit-state breadth-first search over the one-entry docstring cache of the real DocstringParser:
  state  = (cached qualified name, element the cached Docstring object belongs to)
  events = every public query of the parser on every element of a fixed package (class / function / parameter /
           attribute / result documentation)
  invariant = the answer in every reachable state equals the answer of a parser with an empty cache, and the cached
           docstring belongs to the cached name.  Runs to a fixpoint.
  conformance = the query sequence the real visitor issues while analysing that package is replayed: every
           (state, event) pair it goes through must be in the explored graph.
Part B (E1): attachment end to end - unique tokens on every element, all permutations of top-level declarations and of
  class members, four styles.
"""

from __future__ import annotations

import itertools
import shutil
from collections import deque
from pathlib import Path
from types import SimpleNamespace

from ..driver import Obs, Opts, fresh_dir, write_tree
from ..explore import run_packed
from ..pkg import PKG, index_stubs
from ..report import Report
from ..sds_parser import parse_doc_comment

STRUCT = ["NUMPYDOC", "GOOGLE", "REST"]

# ---------------------------------------------------------------------------------------------- docstring rendering


def sec(style: str, kind: str, items: list[tuple[str, str | None, str]], k: int) -> str:
    """A parameters / returns / attributes section; items are (name, type, description)."""
    pad = " " * k
    out = ""
    if not items:
        return out
    if style == "NUMPYDOC":
        head = {"param": "Parameters", "result": "Returns", "attr": "Attributes"}[kind]
        out += f"\n{pad}{head}\n{pad}{'-' * len(head)}\n"
        for n, t, d in items:
            out += f"{pad}{n} : {t}\n" if t else f"{pad}{n}\n"
            out += "".join(f"{pad}    {ln}\n" for ln in d.split("\n"))
    elif style == "GOOGLE":
        head = {"param": "Args", "result": "Returns", "attr": "Attributes"}[kind]
        out += f"\n{pad}{head}:\n"
        for n, t, d in items:
            lines = d.split("\n")
            first = (f"{pad}    {t}: {lines[0]}\n" if kind == "result" else (f"{pad}    {n} ({t}): {lines[0]}\n" if t else f"{pad}    {n}: {lines[0]}\n"))
            out += first + "".join(f"{pad}        {ln}\n" for ln in lines[1:])
    elif style == "REST":
        out += "\n"
        for n, t, d in items:
            lines = d.split("\n")
            key = {"param": f":param {n}:", "result": ":returns:", "attr": f":ivar {n}:"}[kind]
            out += f"{pad}{key} {lines[0]}\n" + "".join(f"{pad}    {ln}\n" for ln in lines[1:])
            if t and kind == "result":
                out += f"{pad}:rtype: {t}\n"
    else:  # plaintext: free text
        for n, t, d in items:
            out += f"\n{pad}{n}: " + d.replace("\n", f"\n{pad}") + "\n"
    return out


def doc(style: str, summary: str, desc: str, k: int, params=(), results=(), attrs=(), example: str | None = None) -> str:
    pad = " " * k
    text = f'{pad}"""{summary}\n\n{pad}' + desc.replace("\n", f"\n{pad}") + "\n"
    text += sec(style, "param", list(params), k) + sec(style, "attr", list(attrs), k) + sec(style, "result", list(results), k)
    if example and style in ("NUMPYDOC", "GOOGLE"):
        head = f"\n{pad}Examples\n{pad}--------\n" if style == "NUMPYDOC" else f"\n{pad}Examples:\n"
        ind = pad if style == "NUMPYDOC" else pad + "    "
        text += head + "".join(f"{ind}{ln}\n" for ln in example.split("\n"))
    return text + f'{pad}"""\n'


# ------------------------------------------------------------------------------------------------ Part A package


def cache_package(style: str) -> dict[str, str]:
    d = lambda *a, **kw: doc(style, *a, **kw)  # noqa: E731
    m1 = (
        '"""Module one."""\n\n\n'
        "def f(a: int, b: str) -> int:\n" + d("Function f of m1.", "Desc f1.", 4, params=[("a", "int", "f1 a"), ("b", "str", "f1 b")], results=[("r", "int", "f1 result")]) + "    return a\n\n\n"
        "def g(a: int) -> int:\n" + d("Function g.", "Desc g.", 4, params=[("a", "int", "g a")], results=[("r", "int", "g result")]) + "    return a\n\n\n"
        "def nodoc(a: int) -> int:\n    return a\n\n\n"
        "class C:\n" + d("Class C.", "Desc C.", 4, params=[("p", "int", "C p (class level)")], attrs=[("x", "int", "C attr x")]) + "\n"
        "    def __init__(self, p: int, q: int) -> None:\n" + d("Ctor of C.", "Desc C init.", 8, params=[("q", "int", "C q (ctor level)")]) + "        self.x = p\n\n"
        "    def f(self, a: int) -> int:\n" + d("Method C.f.", "Desc C.f.", 8, params=[("a", "int", "C.f a")], results=[("r", "int", "C.f result")]) + "        return a\n\n"
        "    class N:\n" + d("Class C.N.", "Desc C.N.", 8, params=[("p", "int", "N p (class level)")]) + "\n"
        "        def __init__(self, p: int) -> None:\n            self.y = p\n\n"
        "        def g(self, a: int) -> int:\n" + d("Method C.N.g.", "Desc C.N.g.", 12, params=[("a", "int", "N.g a")]) + "            return a\n"
    )
    m2 = '"""Module two."""\n\n\ndef f(a: int) -> int:\n' + d("Function f of m2.", "Desc f2.", 4, params=[("a", "int", "f2 a")], results=[("r", "int", "f2 result")]) + "    return a\n"
    return {"cp/__init__.py": "", "cp/m1.py": m1, "cp/m2.py": m2}


def part_a(rep: Report, style: str) -> None:
    from griffe import Parser

    import safeds_stubgen.api_analyzer  # noqa: F401  (import order: avoids the package's circular import)
    from safeds_stubgen.docstring_parsing._docstring_parser import DocstringParser

    d = fresh_dir("a")
    try:
        write_tree(d, cache_package(style))
        parser = DocstringParser(parser={"NUMPYDOC": Parser.numpy, "GOOGLE": Parser.google, "REST": Parser.sphinx}[style], package_path=Path(d / "cp"))
        NODE, DOC = "_DocstringParser__cached_node", "_DocstringParser__cached_docstring"  # noqa: N806
        if not hasattr(parser, NODE) or not hasattr(parser, DOC):
            raise RuntimeError("cache fields of DocstringParser not found (harness must be adapted)")
        funcs = {"cp.m1.f": ["a", "b"], "cp.m1.g": ["a"], "cp.m1.nodoc": ["a"], "cp.m1.C.__init__": ["self", "p", "q"], "cp.m1.C.f": ["self", "a"], "cp.m1.C.N.__init__": ["self", "p"], "cp.m1.C.N.g": ["self", "a"], "cp.m2.f": ["a"]}
        classes = {"cp.m1.C": ["x", "nonexistent"], "cp.m1.C.N": ["y"]}
        events: list[tuple] = []
        for c in classes:
            events.append(("class_doc", c))
            for a in classes[c]:
                events.append(("attr_doc", c.replace(".", "/"), a))
        for f, ps in funcs.items():
            events.append(("func_doc", f))
            events.append(("result_doc", f))
            parent = ".".join(f.split(".")[:-1]).replace(".", "/") if f.split(".")[-2][0].isupper() else ""
            for p in ps:
                events.append(("param_doc", f, p, parent))

        # identity of Docstring objects -> the element they belong to
        owner_of: dict[int, str] = {}

        def collect(obj, qn: str) -> None:
            if obj.docstring is not None:
                owner_of[id(obj.docstring)] = qn
            for name, m in getattr(obj, "members", {}).items():
                if not getattr(m, "is_alias", False):
                    collect(m, f"{qn}.{name}")

        collect(parser.griffe_build, "cp")

        def apply(ev):
            k = ev[0]
            if k == "class_doc":
                return parser.get_class_documentation(SimpleNamespace(fullname=ev[1]))
            if k == "func_doc":
                return parser.get_function_documentation(SimpleNamespace(fullname=ev[1]))
            if k == "result_doc":
                return parser.get_result_documentation(ev[1])
            if k == "param_doc":
                return parser.get_parameter_documentation(function_qname=ev[1], parameter_name=ev[2], parent_class_qname=ev[3])
            return parser.get_attribute_documentation(ev[1], ev[2])

        def get_state():
            n, dd = getattr(parser, NODE), getattr(parser, DOC)
            return (n, None if dd is None else owner_of.get(id(dd), "?unknown-docstring"))

        docs_by_owner = {v: k for k, v in owner_of.items()}
        import ctypes

        def set_state(st) -> None:
            setattr(parser, NODE, st[0])
            setattr(parser, DOC, None if st[1] is None else ctypes.cast(docs_by_owner[st[1]], ctypes.py_object).value)

        # reference answers from the empty cache
        reference = {}
        for ev in events:
            set_state((None, None))
            try:
                reference[ev] = repr(apply(ev))
            except Exception as e:  # noqa: BLE001
                reference[ev] = "EXC:" + repr(e)
        init = (None, None)
        seen = {init}
        frontier = deque([(init, ())])
        graph: set[tuple] = set()
        transitions = 0
        while frontier:
            st, hist = frontier.popleft()
            for ev in events:
                set_state(st)
                try:
                    ans = repr(apply(ev))
                except Exception as e:  # noqa: BLE001
                    ans = "EXC:" + repr(e)
                nxt = get_state()
                transitions += 1
                graph.add((st, ev))
                if ans != reference[ev]:
                    rep.violation("cache-answer-equals-fresh-answer", f"cache:{style}:{ev[0]}|state-kind={'same-name' if st[0] == ev[1] else 'other'}", {"style": style, "state": st, "event": ev, "history": list(hist)[-6:], "fresh": reference[ev][:300], "cached": ans[:300]})
                else:
                    rep.ok("cache-answer-equals-fresh-answer")
                if nxt[1] is not None and nxt[0] is not None and nxt[1] != nxt[0] and not (nxt[0].endswith("__init__")):
                    rep.violation("cached-docstring-belongs-to-cached-name", f"cache-owner:{style}:{ev[0]}", {"style": style, "state_after": nxt, "event": ev})
                else:
                    rep.ok("cached-docstring-belongs-to-cached-name")
                if nxt not in seen:
                    seen.add(nxt)
                    frontier.append((nxt, (*hist, ev)))
        rep.states += len(seen)
        rep.transitions += transitions
        rep.case(f"cache:{style}", True, sample={"style": style, "states": len(seen), "events": len(events), "example_state": list(seen)[1] if len(seen) > 1 else None})
        # ---- conformance: the visitor's real query sequence stays inside the explored graph
        from safeds_stubgen.api_analyzer import get_api
        from safeds_stubgen.docstring_parsing import DocstringStyle
        import safeds_stubgen.docstring_parsing._docstring_parser as dpm

        trace: list[tuple] = []
        orig = {n: getattr(dpm.DocstringParser, n) for n in ("get_class_documentation", "get_function_documentation", "get_parameter_documentation", "get_attribute_documentation", "get_result_documentation")}

        def wrap(name):
            def w(self, *a, **kw):
                before = (getattr(self, NODE), None if getattr(self, DOC) is None else "?")
                if name == "get_class_documentation":
                    ev = ("class_doc", a[0].fullname)
                elif name == "get_function_documentation":
                    ev = ("func_doc", a[0].fullname)
                elif name == "get_result_documentation":
                    ev = ("result_doc", a[0] if a else kw["function_qname"])
                elif name == "get_parameter_documentation":
                    ev = ("param_doc", kw.get("function_qname", a[0] if a else None), kw.get("parameter_name", a[1] if len(a) > 1 else None), kw.get("parent_class_qname", a[2] if len(a) > 2 else None))
                else:
                    ev = ("attr_doc", a[0] if a else kw["parent_class_qname"], a[1] if len(a) > 1 else kw["attribute_name"])
                trace.append((before[0], ev))
                return orig[name](self, *a, **kw)

            return w

        for n in orig:
            setattr(dpm.DocstringParser, n, wrap(n))
        try:
            get_api(root=Path(d / "cp"), docstring_style=DocstringStyle.from_string(style))
        finally:
            for n, fn in orig.items():
                setattr(dpm.DocstringParser, n, fn)
        explored_pairs = {(st[0], ev) for st, ev in graph}
        outside = [(n, ev) for n, ev in trace if (n, ev) not in explored_pairs]
        rep.traces_validated += 1
        rep.extra[f"visitor_queries:{style}"] = len(trace)
        if outside:
            rep.violation("conformance", f"conformance:{style}", {"style": style, "pairs_outside_explored_graph": [list(map(str, x)) for x in outside[:5]], "count": len(outside)})
        else:
            rep.ok("conformance")
    finally:
        shutil.rmtree(d, ignore_errors=True)


# ------------------------------------------------------------------------------------------------ Part B package


def ml(tok: str) -> str:
    return f"{tok} line one\n{tok} line two"


def decl_sources(style: str, u: str) -> dict[str, tuple[str, list[tuple[str, str, str, str | None]]]]:
    """name -> (source, expectations [(token, owner python name, block, key)]) for the top-level declarations."""
    d = lambda *a, **kw: doc(style, *a, **kw)  # noqa: E731
    out: dict[str, tuple[str, list]] = {}
    t = lambda k: f"TK{u}{k}"  # noqa: E731
    structured = style != "PLAINTEXT"
    rname = "rr" if style == "NUMPYDOC" else "result_1"
    out["F1"] = (
        f"def fa{u}(a: int, b: str) -> int:\n" + d(t("F1S") + ".", ml(t("F1D")), 4, params=[("a", "int", t("F1a")), ("b", "str", ml(t("F1b")))], results=[("rr", "int", t("F1r"))], example=f">>> fa{u}(1,  # {t('F1e')}\n...     str([{t('F1g')}...x]))\n1") + "    return a\n",
        [(t("F1S"), f"fa{u}", "description", None), (t("F1D"), f"fa{u}", "description", None)]
        + ([(t("F1a"), f"fa{u}", "param", "a"), (t("F1b"), f"fa{u}", "param", "b"), (t("F1r"), f"fa{u}", "result", rname)] if structured else [(t("F1a"), f"fa{u}", "description", None), (t("F1r"), f"fa{u}", "description", None)])
        + ([(t("F1e"), f"fa{u}", "example", None), (t("F1g") + "...x", f"fa{u}", "example", None)] if style in ("NUMPYDOC", "GOOGLE") else []),
    )
    # a string statement that is NOT the first statement of the body is no documentation
    out["F3"] = (
        f"def fc{u}(a: int) -> int:\n" + d(t("F3S") + ".", t("F3D"), 4) + f"    x = a\n    \"\"\"{t('F3X')} stray string.\"\"\"\n    return x\n",
        [(t("F3S"), f"fc{u}", "description", None), (t("F3D"), f"fc{u}", "description", None), (t("F3X"), None, "absent", None)],
    )
    out["F2"] = (
        f"def fb{u}(a: int) -> int:\n" + d(t("F2S") + ".", t("F2D"), 4, params=[("a", "int", t("F2a"))]) + "    return a\n",
        [(t("F2S"), f"fb{u}", "description", None), (t("F2D"), f"fb{u}", "description", None), (t("F2a"), f"fb{u}", "param" if structured else "description", "a" if structured else None)],
    )
    out["K1"] = (
        f"class Ka{u}:\n" + d(t("K1S") + ".", t("K1D"), 4, params=[("p", "int", t("K1p"))], attrs=[("x", "int", t("K1x"))]) + "\n"
        f"    x: int = 1\n\n    def __init__(self, p: int) -> None:\n        self.q = p\n\n"
        f"    def ma{u}(self, a: int) -> int:\n" + d(t("K1mS") + ".", t("K1mD"), 8, params=[("a", "int", t("K1ma"))], results=[("rr", "int", t("K1mr"))]) + "        return a\n",
        [(t("K1S"), f"Ka{u}", "description", None), (t("K1D"), f"Ka{u}", "description", None), (t("K1mS"), f"ma{u}", "description", None), (t("K1mD"), f"ma{u}", "description", None)]
        + ([(t("K1p"), f"Ka{u}", "param", "p"), (t("K1ma"), f"ma{u}", "param", "a"), (t("K1mr"), f"ma{u}", "result", rname)] if structured else [(t("K1p"), f"Ka{u}", "description", None), (t("K1ma"), f"ma{u}", "description", None)])
        + ([(t("K1x"), "x", "description", None)] if style in ("NUMPYDOC", "GOOGLE") else []),
    )
    # two unnamed results, only the SECOND one is described: its text belongs to result_2 (numpydoc only)
    if style == "NUMPYDOC":
        out["F4"] = (
            f"def fd{u}(a: int) -> tuple[int, float]:\n    \"\"\"{t('F4S')}.\n\n    Returns\n    -------\n    int\n    float\n        {t('F4r')} second result.\n    \"\"\"\n    return a, 1.5\n",
            [(t("F4S"), f"fd{u}", "description", None), (t("F4r"), f"fd{u}", "result", "result_2")],
        )
    else:
        out["F4"] = (f"def fd{u}(a: int) -> int:\n" + d(t("F4S") + ".", t("F4D"), 4) + "    return a\n", [(t("F4S"), f"fd{u}", "description", None), (t("F4D"), f"fd{u}", "description", None)])
    out["K34"] = (
        f"class Kc{u}:\n" + d(t("K3S") + ".", t("K3D"), 4, attrs=[("xs" + u, "int", t("K3x")), ("ys" + u, "str", t("K3y"))]) + f"\n    xs{u}: int = 1\n    ys{u}: str = 'a'\n\n\n"
        f"class Kd{u}:\n    xs{u}: int = 2\n    ys{u}: str = 'b'\n",
        [(t("K3S"), f"Kc{u}", "description", None), (t("K3D"), f"Kc{u}", "description", None)]
        + ([(t("K3x"), "xs" + u, "description", None), (t("K3y"), "ys" + u, "description", None)] if style in ("NUMPYDOC", "GOOGLE") else []),
    )
    # text AFTER the sections belongs to the description as well (Google style: dedented text ends a section)
    if style == "GOOGLE":
        out["F5"] = (
            f"def fe{u}(a: int) -> int:\n    \"\"\"{t('F5S')}.\n\n    {t('F5D')} extended.\n\n    Args:\n        a: {t('F5a')} first.\n\n    {t('F5T')} trailing text.\n    \"\"\"\n    return a\n",
            [(t("F5S"), f"fe{u}", "description", None), (t("F5D"), f"fe{u}", "description", None), (t("F5a"), f"fe{u}", "param", "a"), (t("F5T"), f"fe{u}", "description", None)],
        )
    # a result described without a type, in a sentence that contains a colon: the whole sentence is the description
    if style == "GOOGLE":
        out["F7"] = (
            f"def fg{u}(a: int) -> int:\n    \"\"\"{t('F7S')}.\n\n    Returns:\n        The {t('F7a')} scaled value: {t('F7b')} times the factor.\n    \"\"\"\n    return a\n",
            [(t("F7S"), f"fg{u}", "description", None), (t("F7a"), f"fg{u}", "result", "result_1"), (t("F7b"), f"fg{u}", "result", "result_1")],
        )
    # parameters documented in the styles' second parameter section ('Other Parameters' / 'Keyword Args')
    if style == "NUMPYDOC":
        out["F6"] = (
            f"def ff{u}(a: int, c: str = 'x', **kw: int) -> int:\n    \"\"\"{t('F6S')}.\n\n    Parameters\n    ----------\n    a : int\n        {t('F6a')} first.\n\n    Other Parameters\n    ----------------\n    c : str\n        {t('F6c')} other.\n    **kw : int\n        {t('F6k')} keywords.\n    \"\"\"\n    return a\n",
            [(t("F6S"), f"ff{u}", "description", None), (t("F6a"), f"ff{u}", "param", "a"), (t("F6c"), f"ff{u}", "param", "c"), (t("F6k"), f"ff{u}", "param", "kw")],
        )
        # several attributes documented at once
        out["K5"] = (
            f"class Ke{u}:\n    \"\"\"{t('K5S')}.\n\n    Attributes\n    ----------\n    xg{u}, yg{u} : int\n        {t('K5g')} grouped.\n    zg{u} : str\n        {t('K5z')} single.\n    \"\"\"\n\n    xg{u}: int = 1\n    yg{u}: int = 2\n    zg{u}: str = ''\n",
            [(t("K5S"), f"Ke{u}", "description", None), (t("K5z"), "zg" + u, "description", None), (t("K5g"), ("xg" + u, "yg" + u), "description*", None)],
        )
    elif style == "GOOGLE":
        out["F6"] = (
            f"def ff{u}(a: int, c: str = 'x', **kw: int) -> int:\n    \"\"\"{t('F6S')}.\n\n    Args:\n        a: {t('F6a')} first.\n\n    Keyword Args:\n        c: {t('F6c')} other.\n\n    Other Parameters:\n        **kw: {t('F6k')} keywords.\n    \"\"\"\n    return a\n",
            [(t("F6S"), f"ff{u}", "description", None), (t("F6a"), f"ff{u}", "param", "a"), (t("F6c"), f"ff{u}", "param", "c"), (t("F6k"), f"ff{u}", "param", "kw")],
        )
    out["K2"] = (
        f"class Kb{u}:\n" + d(t("K2S") + ".", t("K2D"), 4) + "\n"
        f"    def __init__(self, p: int) -> None:\n" + d(t("K2iS") + ".", t("K2iD"), 8, params=[("p", "int", t("K2p"))]) + "        self.q = p\n",
        [(t("K2S"), f"Kb{u}", "description", None), (t("K2D"), f"Kb{u}", "description", None)] + ([(t("K2p"), f"Kb{u}", "param", "p")] if structured else []),
    )
    # methods WITHOUT source (functools.total_ordering adds __gt__/__le__/__ge__) right after a documented method: the
    # one-entry docstring cache must not hand them the previous element's parameter / result texts (seed C13f)
    out["K3"] = (
        f"import functools\n\n\n@functools.total_ordering\nclass Kc{u}:\n" + d(t("K3S") + ".", t("K3D"), 4) + "\n"
        f"    def __eq__(self, other: object) -> bool:\n" + d(t("K3eS") + ".", t("K3eD"), 8) + "        return True\n\n"
        f"    def __lt__(self, other: object) -> bool:\n" + d(t("K3lS") + ".", t("K3lD"), 8, params=[("other", "object", t("K3o"))], results=[("rr", "bool", t("K3r"))]) + "        return True\n",
        [(t("K3S"), f"Kc{u}", "description", None), (t("K3eS"), "__eq__", "description", None), (t("K3lS"), "__lt__", "description", None)]
        + ([(t("K3o"), "__lt__", "param", "other"), (t("K3r"), "__lt__", "result", rname)] if structured else []),
    )
    return out


def member_sources(style: str, u: str):
    d = lambda *a, **kw: doc(style, *a, **kw)  # noqa: E731
    t = lambda k: f"TM{u}{k}"  # noqa: E731
    structured = style != "PLAINTEXT"
    rname = "rr" if style == "NUMPYDOC" else "result_1"
    out = {}
    out["m1"] = (f"    def m1{u}(self, a: int) -> int:\n" + d(t("1S") + ".", ml(t("1D")), 8, params=[("a", "int", t("1a"))], results=[("rr", "int", t("1r"))]) + "        return a\n",
                 [(t("1S"), f"m1{u}", "description", None), (t("1D"), f"m1{u}", "description", None)] + ([(t("1a"), f"m1{u}", "param", "a"), (t("1r"), f"m1{u}", "result", rname)] if structured else []))
    out["m2"] = (f"    def m2{u}(self, a: int, b: int) -> int:\n" + d(t("2S") + ".", t("2D"), 8, params=[("a", "int", t("2a")), ("b", "int", t("2b"))]) + "        return a\n",
                 [(t("2S"), f"m2{u}", "description", None), (t("2D"), f"m2{u}", "description", None)] + ([(t("2a"), f"m2{u}", "param", "a"), (t("2b"), f"m2{u}", "param", "b")] if structured else []))
    # a method whose NAME merely ends in __init__ is an ordinary method: its own docstring documents its parameters
    out["xi"] = (f"    def x{u}__init__(self, p: int) -> int:\n" + d(t("5S") + ".", t("5D"), 8, params=[("p", "int", t("5p"))]) + "        return p\n",
                 [(t("5S"), f"x{u}__init__", "description", None), (t("5D"), f"x{u}__init__", "description", None)] + ([(t("5p"), f"x{u}__init__", "param", "p")] if structured else []))
    out["pr"] = (f"    @property\n    def pr{u}(self) -> int:\n" + d(t("3S") + ".", t("3D"), 8) + "        return 1\n", [(t("3S"), f"pr{u}", "description", None), (t("3D"), f"pr{u}", "description", None)])
    out["st"] = (f"    @staticmethod\n    def st{u}(a: int) -> int:\n" + d(t("4S") + ".", t("4D"), 8, params=[("a", "int", t("4a"))]) + "        return a\n",
                 [(t("4S"), f"st{u}", "description", None), (t("4D"), f"st{u}", "description", None)] + ([(t("4a"), f"st{u}", "param", "a")] if structured else []))
    return out


def part_b(rep: Report, tier: str) -> None:
    units = []  # (label, style, module name, source, expectations, module token)
    uid = itertools.count(1)
    for style in ["PLAINTEXT", *STRUCT]:
        names = ["F1", "F2", "F3", "F4", "K1", "K2", "K34"]
        perms = list(itertools.permutations(names)) if tier == "thorough" else [p for i, p in enumerate(itertools.permutations(names)) if i % 419 == 0] + [tuple(names)]
        for perm in perms:
            u = f"{next(uid):05d}"
            ds = decl_sources(style, u)
            src = f'"""TKMOD{u} module summary.\n\nTKMOD{u} second paragraph.\n"""\n\n\n' + "\n\n".join(ds[n][0] for n in perm)
            exp = [e for n in perm for e in ds[n][1]]
            units.append((f"top:{'>'.join(perm)}", style, f"d{u}", src, exp, f"TKMOD{u}"))
        # style-specific declarations (text after the sections, second parameter section, grouped attributes)
        u = f"{next(uid):05d}"
        ds = decl_sources(style, u)
        extra_names = [n for n in ("F5", "F6", "F7", "K5") if n in ds]
        if extra_names:
            units.append(("style-specific", style, f"d{u}", "\n\n".join(ds[n][0] for n in extra_names), [e for n in extra_names for e in ds[n][1]], None))
        # a module WITHOUT docstring whose later string statement describes a variable: no module description
        u = f"{next(uid):05d}"
        ds = decl_sources(style, u)
        src = f"import os\n\nXV{u} = 1\n\"\"\"TKVAR{u} describes the variable.\"\"\"\n\n\n" + ds["F2"][0]
        units.append(("module-without-docstring", style, f"d{u}", src, [*ds["F2"][1], (f"TKVAR{u}", None, "absent", None)], None))
        # a class with source-less generated methods, alone and on either side of a documented function
        for order in (("K3",), ("F1", "K3"), ("K3", "F1"), ("K2", "K3", "F2")):
            u = f"{next(uid):05d}"
            ds = decl_sources(style, u)
            units.append((f"generated-methods:{'>'.join(order)}", style, f"d{u}", "\n\n".join(ds[n][0] for n in order), [e for n in order for e in ds[n][1]], None))
        mnames = ["m1", "m2", "xi", "pr", "st"]
        mperms = list(itertools.permutations(mnames, 3)) if tier == "thorough" else list(itertools.permutations(mnames[:4], 3))
        for perm in mperms:
            u = f"{next(uid):05d}"
            ms = member_sources(style, u)
            src = f"class Kc{u}:\n" + doc(style, f"TC{u} class.", f"TC{u} desc", 4) + "\n" + "\n".join(ms[n][0] for n in perm)
            exp = [e for n in perm for e in ms[n][1]] + [(f"TC{u} class", f"Kc{u}", "description", None)]
            units.append((f"members:{'>'.join(perm)}", style, f"d{u}", src, exp, None))
    by_style: dict[str, list] = {}
    for x in units:
        by_style.setdefault(x[1], []).append(x)

    def build(us):
        files = {f"{PKG}/__init__.py": ""}
        for label, style, mod, src, exp, modtok in us:
            files[f"{PKG}/{mod}.py"] = src
        return files, PKG

    common: dict[str, dict[str, tuple]] = {}

    def on_group(us, opts: Opts, obs: Obs, files) -> None:
        style = opts.docstyle
        if obs.outcome != "completed":
            for x in us:
                rep.case(f"{style}|{x[0]}")
            rep.violation("run-completes", f"run:{obs.outcome}:{obs.crash_sig()}|{style}", {"style": style, "exc": obs.exc_type + ": " + obs.exc_msg, "tb": obs.exc_tb[-500:]}, files=files, src_rel=PKG, opts=opts, obs=obs)
            return
        idx = index_stubs(obs)
        for label, st, mod, src, exp, modtok in us:
            rep.case(f"{style}|{label}", True, sample={"style": style, "order": label, "python": src[:400]} if hash(label + style) % 37 == 0 else None)
            path = f"{PKG}/{mod}/{mod}.sdsstub"
            m = idx.modules.get(path)
            mini = {f"{PKG}/__init__.py": "", f"{PKG}/{mod}.py": src}
            if m is None:
                rep.extra["stub_missing_or_unparsable"] = rep.extra.get("stub_missing_or_unparsable", 0) + 1
                continue

            def viol(clause, feat, detail, label=label, mini=mini) -> None:
                rep.violation(clause, f"{clause}:{feat}|{style}|{label.split(':')[0]}", {"style": style, "order": label, **detail}, files=mini, src_rel=PKG, opts=opts)

            # keyed by the full chain: equally named members of different classes are different elements
            blocks: dict[str, object] = {}
            for chain, dcl in m.walk():
                blocks["/".join((*chain, dcl.py_name))] = parse_doc_comment(dcl.doc)
            modblk = parse_doc_comment(m.doc)
            if modtok:
                if sum(1 for ln in modblk.description if modtok in ln) != 2:
                    viol("module-description", "module", {"module_doc": modblk.description})
                else:
                    rep.ok("module-description")
            for tok, owner, block, key in exp:
                # where does the token occur?
                occ = []
                for key_, b in blocks.items():
                    name = key_.split("/")[-1]
                    if any(tok in ln for ln in b.description):
                        occ.append((name, "description", None))
                    for pn, lines in b.params.items():
                        if any(tok in ln for ln in lines):
                            occ.append((name, "param", pn))
                    for rn, lines in b.results.items():
                        if any(tok in ln for ln in lines):
                            occ.append((name, "result", rn))
                    for ex in b.examples:
                        if any(tok in ln for ln in ex):
                            occ.append((name, "example", None))
                if any(tok in ln for ln in modblk.description):
                    occ.append(("<module>", "description", None))
                kind = "".join(c for c in tok[2 + 5 :] if not c.isdigit()) or "?"
                if block == "absent":
                    if occ:
                        viol("stray-string-is-no-documentation", kind, {"token": tok, "observed": occ})
                    else:
                        rep.ok("stray-string-is-no-documentation")
                    continue
                if not occ:
                    viol("token-present", f"{block}:{kind}", {"token": tok, "expected_owner": owner})
                    continue
                if block == "description*":
                    # one text documenting several elements at once: it is attached to exactly these
                    if sorted(occ) == sorted((o, "description", None) for o in owner):
                        rep.ok("token-attached")
                    else:
                        viol("token-attached-to-its-element-only", f"{block}:{kind}", {"token": tok, "expected": owner, "observed": occ})
                    continue
                want = (owner, block, key)
                if occ != [want]:
                    if style == "PLAINTEXT" and all(o[0] == owner and o[1] == "description" for o in occ):
                        rep.ok("token-attached")
                    else:
                        viol("token-attached-to-its-element-only", f"{block}:{kind}", {"token": tok, "expected": want, "observed": occ})
                    continue
                rep.ok("token-attached")
                # multi-line texts keep their line sequence
                b = next(bb for kk, bb in blocks.items() if kk.split("/")[-1] == owner)
                lines = b.description if block == "description" else (b.params.get(key, []) if block == "param" else (b.results.get(key, []) if block == "result" else [ln for ex in b.examples for ln in ex]))
                got = [ln for ln in lines if tok in ln]
                if len(got) == 2 and not (got[0].rstrip().endswith("line one") and got[1].rstrip().endswith("line two")):
                    viol("multi-line-order", f"{block}:{kind}", {"token": tok, "lines": got})
                elif len(got) == 2:
                    li = [i for i, ln in enumerate(lines) if tok in ln]
                    if li[1] != li[0] + 1:
                        viol("multi-line-order", f"{block}:{kind}:gap", {"token": tok, "lines": lines})
                    else:
                        rep.ok("multi-line-order")
            # common-construct view for the cross-style comparison: description + @param + @result blocks with tokens made style-neutral
            if style in STRUCT:
                view = {}
                for name, b in blocks.items():
                    view[name] = (tuple(b.description[:3]), tuple(sorted((k, tuple(v)) for k, v in b.params.items())), tuple(tuple(v) for v in b.results.values()))
                common.setdefault(label + "|" + mod, {})[style] = view

    groups = [(by_style[s], Opts(docstyle=s)) for s in by_style]
    stats: dict[str, int] = {}
    run_packed(groups, build, on_group, stats)
    rep.extra.update(stats)
    rep.extra["attachment_units"] = len(units)


def part_c(rep: Report) -> None:
    """Cross-style equality: one module whose docstrings use only constructs common to all three structured styles."""
    from ..driver import job_run_files

    views = {}
    for style in STRUCT:
        src = (
            "def fx(a: int, b: str) -> int:\n" + doc(style, "Summary of fx.", "Longer description\nof fx.", 4, params=[("a", "int", "about a"), ("b", "str", "about b\nsecond line")], results=[("rr", "int", "the result")]) + "    return a\n\n\n"
            "class Kx:\n" + doc(style, "Summary of Kx.", "Description of Kx.", 4, params=[("p", "int", "about p")]) + "\n    def __init__(self, p: int) -> None:\n        self.q = p\n\n"
            "    def mx(self, a: int) -> int:\n" + doc(style, "Summary of mx.", "Description of mx.", 8, params=[("a", "int", "about mx a")], results=[("rr", "int", "mx result")]) + "        return a\n"
        )
        obs = job_run_files({f"{PKG}/__init__.py": "", f"{PKG}/cm.py": src}, PKG, Opts(docstyle=style))
        rep.case(f"cross-style:{style}", True)
        if obs.outcome != "completed":
            rep.violation("run-completes", f"run:{obs.crash_sig()}|cross-style:{style}", {"exc": obs.exc_msg})
            return
        idx = index_stubs(obs)
        m = idx.modules.get(f"{PKG}/cm/cm.sdsstub")
        v = {}
        for chain, dcl in m.walk():
            b = parse_doc_comment(dcl.doc)
            v[dcl.py_name] = (tuple(b.description), tuple(sorted((k, tuple(x)) for k, x in b.params.items())), tuple(tuple(x) for x in b.results.values()))
        views[style] = v
    base = views["NUMPYDOC"]
    for style in ("GOOGLE", "REST"):
        for elem in sorted(set(base) | set(views[style])):
            a, b = base.get(elem), views[style].get(elem)
            if a is None or b is None:
                rep.violation("same-documentation-in-every-style", f"cross-style:{style}:{elem}:missing", {"numpydoc": str(a), style: str(b)})
                continue
            parts = [("description", a[0], b[0])]
            pa, pb = dict(a[1]), dict(b[1])
            parts += [(f"param:{k}", pa.get(k), pb.get(k)) for k in sorted(set(pa) | set(pb))]
            parts += [("results", a[2], b[2])]
            for name, x, y in parts:
                if x == y:
                    rep.ok("same-documentation-in-every-style")
                    continue
                flat = lambda v: " ".join(" ".join(i) if isinstance(i, tuple) else str(i) for i in (v or ()))  # noqa: E731
                how = "joined-lines" if flat(x) == flat(y) else "text"
                rep.violation("same-documentation-in-every-style", f"cross-style:{style}:{elem}:{name.split(':')[0]}:{how}", {"element": elem, "block": name, "numpydoc": str(x), style: str(y)})


def run(rep: Report, tier: str, seed: int) -> None:
    for style in STRUCT:
        part_a(rep, style)
    part_b(rep, tier)
    part_c(rep)
    rep.rule = (
        "Part A: BFS to a fixpoint over the states of the real DocstringParser's one-entry cache on a package with colliding names (function f in two modules and as method, class and constructor parameter sections, nested class with constructor, undocumented function): every public query on every element in every reachable state, for 3 styles; "
        "Part B: unique tokens on module / class / constructor / function / method / parameter / result / attribute / example texts, "
        + ("all 24 permutations of 4 top-level declarations and all 24 ordered triples of 4 member kinds" if tier == "thorough" else "9 permutations of 4 top-level declarations and all 6 permutations of 3 members")
        + ", 4 styles; Part C: one module with constructs common to the three structured styles; distinct = distinct (style, order) / cache exploration"
    )
    rep.assumptions = [
        "cache state is read and restored through the name-mangled attributes _DocstringParser__cached_node/__cached_docstring (no source hook)",
        "parameter/result types in docstrings are C14's; markup that a style's own parser rewrites is outside the token alphabet",
    ]
