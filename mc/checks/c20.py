"""C20 - TODO markers flag exactly the declarations that need manual attention (E1 over orderings, full pipeline)."""

from __future__ import annotations

import itertools

from ..driver import Obs, Opts
from ..explore import run_packed
from ..pkg import PKG, index_stubs
from ..report import Report

M = {
    "tuple": "Safe-DS does not support tuple types.",
    "set": "Safe-DS does not support set types.",
    "list2": "List type has to many type arguments.",
    "set2": "Set type has to many type arguments.",
    "optpos": "Safe-DS does not support optional but position only parameter assignments.",
    "reqkw": "Safe-DS does not support required but name only parameter assignments.",
    "multi": "Safe-DS does not support multiple inheritance.",
    "variadic": "Safe-DS does not support variadic parameters.",
    "classm": "Safe-DS does not support class methods.",
    "param": "Some parameter have no type information.",
    "attr": "Attribute has no type information.",
    "result": "Result type information missing.",
    "value": "Unknown value - Value could not be parsed.",
}
DONT_CARE = {"An internal class must not be used as a type in a public class.", "Unknown type - Type could not be parsed."}

# module-level letters: name -> (template with {u}, [(stub kind, python name template, chain, markers)])
TOP = {
    "f_clean": ("def f{u}(a: int) -> int:\n    return a\n", [("fun", "f{u}", [])]),
    "f_param": ("def f{u}(a) -> int:\n    return 1\n", [("fun", "f{u}", ["param"])]),
    "f_result": ("def f{u}(a: int):\n    pass\n", [("fun", "f{u}", ["result"])]),
    "f_tuple": ("def f{u}(a: tuple[int, str]) -> int:\n    return 1\n", [("fun", "f{u}", ["tuple"])]),
    "f_set": ("def f{u}(a: set[int]) -> int:\n    return 1\n", [("fun", "f{u}", ["set"])]),
    "f_list2": ("def f{u}(a: list[int, str]) -> int:\n    return 1\n", [("fun", "f{u}", ["list2"])]),
    "f_set2": ("def f{u}(a: set[int, str]) -> int:\n    return 1\n", [("fun", "f{u}", ["set", "set2"])]),
    # several type arguments that are all the SAME type still are several type arguments (seed C20f counted distinct ones)
    "f_list2_same": ("def f{u}(a: list[int, int]) -> int:\n    return 1\n", [("fun", "f{u}", ["list2"])]),
    "f_set2_same": ("def f{u}(a: int) -> set[str, str]:\n    return set()\n", [("fun", "f{u}", ["set", "set2"])]),
    "f_args": ("def f{u}(*args: int) -> int:\n    return 1\n", [("fun", "f{u}", ["variadic"])]),
    "f_kwargs": ("def f{u}(**kwargs: int) -> int:\n    return 1\n", [("fun", "f{u}", ["variadic"])]),
    "f_optpos": ("def f{u}(a: int = 1, /) -> int:\n    return 1\n", [("fun", "f{u}", ["optpos"])]),
    "f_optpos_zero": ("def f{u}(a: int = 0, b: float = 0.0, c: bool = False, /) -> int:\n    return 1\n", [("fun", "f{u}", ["optpos"])]),
    "f_optpos_empty_str": ("def f{u}(a: str = '', /) -> int:\n    return 1\n", [("fun", "f{u}", ["optpos"])]),
    "f_optpos_none": ("def f{u}(a: int | None = None, /) -> int:\n    return 1\n", [("fun", "f{u}", ["optpos"])]),
    "f_optpos_none_untyped": ("def f{u}(a=None, /) -> int:\n    return 1\n", [("fun", "f{u}", ["optpos"])]),
    # defaults that are no literals: the stub cannot show them, the parameter stays optional in Python
    "f_value_list": ("def f{u}(a: list[int] = []) -> int:\n    return 1\n", [("fun", "f{u}", ["value"])]),
    "f_value_const": ("def f{u}(a: int = CONST20) -> int:\n    return 1\n", [("fun", "f{u}", ["value"])]),
    "f_value_call": ("def f{u}(a: int = int()) -> int:\n    return 1\n", [("fun", "f{u}", ["value"])]),
    "f_value_binop": ("def f{u}(a: int = 1 + 2) -> int:\n    return 1\n", [("fun", "f{u}", ["value"])]),
    "f_value_kwonly_list": ("def f{u}(*, a: list[int] = []) -> int:\n    return 1\n", [("fun", "f{u}", ["value"])]),
    "f_list2_in_optional": ("def f{u}(a: Optional[list[int, str]] = None) -> int:\n    return 1\n", [("fun", "f{u}", ["list2"])]),
    "f_list2_in_dict": ("def f{u}(a: dict[str, list[int, str]]) -> int:\n    return 1\n", [("fun", "f{u}", ["list2"])]),
    "f_reqkw": ("def f{u}(*, a: int) -> int:\n    return 1\n", [("fun", "f{u}", ["reqkw"])]),
    "f_value": ("def f{u}(a: int = not 1) -> int:\n    return 1\n", [("fun", "f{u}", ["value"])]),
    "f_result_set": ("def f{u}(a: int) -> set[int]:\n    return set()\n", [("fun", "f{u}", ["set"])]),
    "f_many": ("def f{u}(a, *args, b: tuple[int, int]):\n    pass\n", [("fun", "f{u}", ["param", "variadic", "tuple", "result", "reqkw"])]),
    "c_clean": ("class C{u}:\n    def m{u}(self, a: int) -> int:\n        return a\n", [("class", "C{u}", []), ("fun", "m{u}", [])]),
    "c_empty": ("class C{u}:\n    pass\n", [("class", "C{u}", [])]),
    "c_multi": ("class C{u}(BaseA, BaseB):\n    def m{u}(self) -> int:\n        return 1\n", [("class", "C{u}", ["multi"]), ("fun", "m{u}", [])]),
    "c_ctor_param": ("class C{u}:\n    def __init__(self, a) -> None:\n        pass\n\n    def m{u}(self) -> int:\n        return 1\n", [("class", "C{u}", ["param"]), ("fun", "m{u}", [])]),
    "c_ctor_args": ("class C{u}:\n    def __init__(self, *args: int) -> None:\n        pass\n", [("class", "C{u}", ["variadic"])]),
    "c_ctor_tuple_multi": ("class C{u}(BaseA, BaseB):\n    def __init__(self, a: tuple[int, str]) -> None:\n        pass\n", [("class", "C{u}", ["tuple", "multi"])]),
    "c_attr": ("class C{u}:\n    a{u} = untyped_call()\n    b{u}: int = 1\n", [("class", "C{u}", []), ("attr", "a{u}", ["attr"]), ("attr", "b{u}", [])]),
    "c_attr_last": ("class C{u}:\n    b{u}: int = 1\n    a{u}: tuple[int, str] = (1, 'a')\n", [("class", "C{u}", []), ("attr", "b{u}", []), ("attr", "a{u}", ["tuple"])]),
    "c_classm": ("class C{u}:\n    @classmethod\n    def cm{u}(cls) -> int:\n        return 1\n\n    def m{u}(self) -> int:\n        return 1\n", [("class", "C{u}", []), ("fun", "cm{u}", ["classm"]), ("fun", "m{u}", [])]),
    "c_dirty_last": ("class C{u}:\n    def m{u}(self) -> int:\n        return 1\n\n    def d{u}(self, a, *args):\n        pass\n", [("class", "C{u}", []), ("fun", "m{u}", []), ("fun", "d{u}", ["param", "variadic", "result"])]),
    "c_prop_set": ("class C{u}:\n    @property\n    def p{u}(self) -> set[int]:\n        return set()\n\n    def m{u}(self) -> int:\n        return 1\n", [("class", "C{u}", []), ("attr", "p{u}", ["set"]), ("fun", "m{u}", [])]),
    "c_multi_subscripted": ("class C{u}(BaseA, GenBase[int]):\n    def m{u}(self) -> int:\n        return 1\n", [("class", "C{u}", ["multi"]), ("fun", "m{u}", [])]),
    "c_nested_dirty": ("class C{u}:\n    class N{u}:\n        def __init__(self, a) -> None:\n            pass\n\n    def m{u}(self) -> int:\n        return 1\n", [("class", "C{u}", []), ("class", "N{u}", ["param"]), ("fun", "m{u}", [])]),
    "c_inherit_private": ("class _P{u}:\n    def i{u}(self, a: set[int]) -> int:\n        return 1\n\n\nclass C{u}(_P{u}):\n    def m{u}(self) -> int:\n        return 1\n", [("class", "C{u}", []), ("fun", "i{u}", ["set"]), ("fun", "m{u}", [])]),
    # the marker stems from the class's type-parameter list (bound / constraint), not from a member
    "c_gen_bound_tuple": ("class C{u}(Generic[TCB]):\n    x{u}: int = 1\n\n    def m{u}(self, a: int) -> int:\n        return a\n", [("class", "C{u}", ["tuple"]), ("attr", "x{u}", []), ("fun", "m{u}", [])]),
    "c_gen_constr_set": ("class C{u}(Generic[TCS]):\n    def m{u}(self, a: int) -> int:\n        return a\n", [("class", "C{u}", ["set"]), ("fun", "m{u}", [])]),
    "c_gen_bound_tuple_empty": ("class C{u}(Generic[TCB]):\n    pass\n", [("class", "C{u}", ["tuple"])]),
    # an invariant class type variable whose BOUND is a tuple: the class shows '<TIB>' only, its methods show nothing of it
    "c_gen_invariant_bound_tuple": ("class C{u}(Generic[TIB]):\n    def m{u}(self, a: TIB) -> int:\n        return 1\n\n    def n{u}(self, b: int) -> int:\n        return b\n", [("class", "C{u}", []), ("fun", "m{u}", []), ("fun", "n{u}", [])]),
    "f_typevar_bound_tuple": ("def f{u}(a: TIB) -> int:\n    return 1\n", [("fun", "f{u}", ["tuple"])]),
    "e_enum": ("class E{u}(Enum):\n    A{u} = 1\n", [("enum", "E{u}", [])]),
}
HEADER = "from enum import Enum\nfrom typing import Generic, Optional, TypeVar\n\nCONST20 = 3\nTCB = TypeVar(\"TCB\", covariant=True, bound=tuple[int, str])\nTCS = TypeVar(\"TCS\", set[int], int)\nTG = TypeVar(\"TG\")\nTIB = TypeVar(\"TIB\", bound=tuple[int, str])\n\n\nclass GenBase(Generic[TG]):\n    pass\n\n\ndef untyped_call():\n    return object()\n\n\nclass BaseA:\n    pass\n\n\nclass BaseB:\n    pass\n\n\n"

# members inside one class body: name -> (source template indented by 4, [(kind, name, markers)])
MEMBERS = {
    "a_clean": ("    x{u}: int = 1\n", [("attr", "x{u}", [])]),
    "a_untyped": ("    x{u} = untyped_call()\n", [("attr", "x{u}", ["attr"])]),
    "a_tuple": ("    x{u}: tuple[int, str] = (1, 'a')\n", [("attr", "x{u}", ["tuple"])]),
    "a_set2": ("    x{u}: set[int, str] = set()\n", [("attr", "x{u}", ["set", "set2"])]),
    "m_clean": ("    def x{u}(self, a: int) -> int:\n        return a\n", [("fun", "x{u}", [])]),
    "m_param": ("    def x{u}(self, a) -> int:\n        return 1\n", [("fun", "x{u}", ["param"])]),
    "m_classm": ("    @classmethod\n    def x{u}(cls) -> int:\n        return 1\n", [("fun", "x{u}", ["classm"])]),
    "m_args_result": ("    def x{u}(self, *args: int):\n        pass\n", [("fun", "x{u}", ["variadic", "result"])]),
    "m_static_reqkw": ("    @staticmethod\n    def x{u}(*, a: int) -> int:\n        return 1\n", [("fun", "x{u}", ["reqkw"])]),
    "p_clean": ("    @property\n    def x{u}(self) -> int:\n        return 1\n", [("attr", "x{u}", [])]),
    "p_untyped": ("    @property\n    def x{u}(self):\n        return untyped_call()\n", [("attr", "x{u}", ["attr"])]),
    "p_set": ("    @property\n    def x{u}(self) -> set[int]:\n        return set()\n", [("attr", "x{u}", ["set"])]),
    "n_clean": ("    class X{u}:\n        def y{u}(self) -> int:\n            return 1\n", [("class", "X{u}", []), ("fun", "y{u}", [])]),
    "n_dirty": ("    class X{u}:\n        def __init__(self, a, *args) -> None:\n            pass\n", [("class", "X{u}", ["param", "variadic"])]),
}
CTORS = {
    "noctor": ("", []),
    "ctor_clean": ("    def __init__(self, q: int) -> None:\n        self.i{u}: int = q\n", []),
    "ctor_dirty": ("    def __init__(self, q, *args: int) -> None:\n        self.i{u} = untyped_call()\n", ["param", "variadic"]),
}
# multi_mix: a private class of the package listed AFTER the two public bases (its public method is shown in the subclass)
BASES = {"nobase": ("", []), "multi": ("(BaseA, BaseB)", ["multi"]), "multi_mix": ("(BaseA, BaseB, _Mix{u})", ["multi"]), "mix_multi": ("(_Mix{u}, BaseA, BaseB)", ["multi"])}


def run(rep: Report, tier: str, seed: int) -> None:
    units: list[tuple[str, str, list[tuple[str, str, frozenset]]]] = []  # (label, source, expectations)
    uid = itertools.count(1)
    names = list(TOP)
    seqs: list[tuple[str, ...]] = [(a,) for a in names] + list(itertools.product(names, repeat=2))
    triple_letters = names if tier == "thorough" else ["f_clean", "f_many", "f_result", "c_clean", "c_multi", "c_ctor_param", "c_attr", "c_dirty_last", "c_inherit_private", "e_enum", "f_value", "c_nested_dirty"]
    seqs += list(itertools.product(triple_letters, repeat=3))
    for seq in seqs:
        src, exp = [], []
        for k, name in enumerate(seq):
            u = f"{next(uid):06d}"
            tmpl, es = TOP[name]
            src.append(tmpl.replace("{u}", u))
            exp += [(kind, nm.replace("{u}", u), frozenset(M[m] for m in marks), name) for kind, nm, marks in es]
        units.append(("top:" + ">".join(seq), "\n\n".join(src), exp))
    mnames = list(MEMBERS)
    depth = 3 if tier == "thorough" else 2
    mseqs = [()] + [s for k in range(1, depth + 1) for s in itertools.product(mnames, repeat=k)]
    for ctor in CTORS:
        for base in BASES:
            for seq in mseqs:
                if tier == "quick" and len(seq) == 2 and (ctor, base) not in (("noctor", "nobase"), ("ctor_dirty", "multi")):
                    continue
                if tier == "thorough" and len(seq) == 3 and (ctor, base) not in (("noctor", "nobase"), ("ctor_dirty", "multi")):
                    continue
                u0 = f"{next(uid):06d}"
                body, exp = "", []
                ctmpl, cmarks = CTORS[ctor]
                btmpl, bmarks = BASES[base]
                exp.append(("class", f"K{u0}", frozenset(M[m] for m in cmarks + bmarks), f"header:{ctor}:{base}"))
                if ctor != "noctor":
                    exp.append(("attr", f"i{u0}", frozenset([M["attr"]] if ctor == "ctor_dirty" else []), f"ctor-attr:{ctor}"))
                for name in seq:
                    u = f"{next(uid):06d}"
                    tmpl, es = MEMBERS[name]
                    body += tmpl.replace("{u}", u) + "\n"
                    exp += [(kind, nm.replace("{u}", u), frozenset(M[m] for m in marks), name) for kind, nm, marks in es]
                text = f"class K{u0}{btmpl.replace('{u}', u0)}:\n" + (ctmpl.replace("{u}", u0) + "\n" if ctmpl else "") + (body if body else ("    pass\n" if not ctmpl else ""))
                if "_Mix" in btmpl:
                    text = f"class _Mix{u0}:\n    def mixm{u0}(self) -> int:\n        return 1\n\n    def mixn{u0}(self, a: set[int]) -> int:\n        return 1\n\n\n" + text
                    exp += [("fun", f"mixm{u0}", frozenset(), f"inherited:{base}"), ("fun", f"mixn{u0}", frozenset([M["set"]]), f"inherited:{base}")]
                units.append((f"class:{ctor}:{base}:" + ">".join(seq), text, exp))
    rep.rule = (
        f"module level: all sequences of length 1-2 over {len(names)} declaration letters (functions with each of the flagged features, classes with constructor/attribute/method/property/nested/inherited features, enum) and "
        f"length 3 over {len(triple_letters)} letters; class bodies: all member sequences of length <= {depth} over {len(mnames)} member letters x 3 constructor variants x 4 base lists (none; two public bases; two public bases followed / preceded by a private class of the package whose methods are shown); one module per sequence; distinct = distinct sequence label"
    )

    def build(us):
        files = {f"{PKG}/__init__.py": ""}
        for i, (label, src, exp) in enumerate(us):
            files[f"{PKG}/s{abs(hash(label)) % 10**9:09d}_{i}.py"] = HEADER + src
        return files, PKG

    def on_group(us, opts, obs: Obs, files) -> None:
        if obs.outcome != "completed":
            for label, src, exp in us:
                rep.case(label)
                rep.violation("run-completes", f"run:{obs.outcome}:{obs.crash_sig()}|{label}", {"sequence": label, "exc": obs.exc_type + ": " + obs.exc_msg}, files={f"{PKG}/__init__.py": "", f"{PKG}/m.py": HEADER + src}, src_rel=PKG, opts=opts, obs=obs)
            return
        idx = index_stubs(obs)
        for path, e in idx.errors.items():
            rep.violation("stub-parses", f"unparsable:{e.clause}", {"file": path, "error": str(e)})
        # marker lines that are attached to no declaration (clause 3): total '// TODO' lines vs attached
        for path, m in idx.modules.items():
            attached = sum(len(d.todos) for _, d in m.walk())
            total = obs.stubs()[path].count("// TODO")
            if attached != total:
                rep.violation("marker-followed-by-declaration", "dangling", {"file": path, "stub": obs.stubs()[path][:800]})
            else:
                rep.ok("marker-followed-by-declaration")
        for label, src, exp in us:
            rep.case(label, True, sample={"sequence": label, "python": src[:300]} if hash(label) % 2003 == 0 else None)
            mini = {f"{PKG}/__init__.py": "", f"{PKG}/m.py": HEADER + src}
            for pos, (kind, name, marks, owner_letter) in enumerate(exp):
                hits = idx.find(name, kind)
                if len(hits) != 1:
                    rep.extra["decl_not_found(C03)"] = rep.extra.get("decl_not_found(C03)", 0) + 1
                    continue
                d = hits[0][2]
                got = frozenset(t for t in d.todos if t not in DONT_CARE)
                letter = label.split(":")[0]
                if got == marks:
                    rep.ok("markers-exact")
                    continue
                missing, extra = marks - got, got - marks
                seq = label.split(":")[-1].split(">")
                feat = f"{kind}@{pos}"
                if missing:
                    rep.violation("marker-missing", f"marker-missing:{letter}:{sorted(missing)[0][:28]}|{owner_letter}", {"sequence": label, "declaration": name, "missing": sorted(missing), "observed": sorted(got), "python": src[:600]}, files=mini, src_rel=PKG, opts=opts)
                if extra:
                    rep.violation("marker-extra", f"marker-extra:{letter}:{sorted(extra)[0][:28]}|{feat}|{owner_letter}", {"sequence": label, "declaration": name, "extra": sorted(extra), "observed": sorted(got), "python": src[:600]}, files=mini, src_rel=PKG, opts=opts)

    stats: dict[str, int] = {}
    groups = [(units[i : i + 400], Opts()) for i in range(0, len(units), 400)]
    run_packed(groups, build, on_group, stats)
    rep.extra.update(stats)
    rep.extra["sequences"] = len(units)
    rep.assumptions = [
        "expected marker sets are written per letter from the statement's list; 'internal class as type' and 'unknown type' markers are neither required nor forbidden",
        "constructor features are expected on the class declaration (the constructor is rendered in the class signature)",
    ]
