"""C10 - stub files are laid out by module path inside the output directory (E1 over trees + L0 path spellings)."""

from __future__ import annotations

import re

import shutil
from pathlib import Path

from ..driver import Obs, Opts, fresh_dir, read_tree, run_cli, run_inproc, write_tree
from ..explore import run_jobs
from ..pkg import PKG
from ..report import Report
from ..sds_parser import SdsSyntaxError, parse_stub
from ..tree import enumerate_trees, pack_trees


def job_layout(files: dict[str, str], src_rel: str, opts: Opts) -> tuple[Obs, list[tuple[str, str]], list[str]]:
    """Run the pipeline in-process and additionally record (target path, text) for every stub the generator hands to
    create_stub_files, plus every file that appears anywhere in the scratch directory outside OUT."""
    import safeds_stubgen.api_analyzer.cli._cli as cli_mod

    d = fresh_dir("l")
    targets: list[tuple[str, str]] = []
    orig = cli_mod.create_stub_files

    def spy(stubs_generator, stubs_data, out_path):
        for module_dir, module_name, module_text, is_package_module in stubs_data:
            corrected = Path("/".join(module_dir.parts[:-1])) if is_package_module else module_dir
            targets.append((str(Path(corrected / f"{module_name.lstrip('_')}.sdsstub").resolve()), module_text))
        return orig(stubs_generator=stubs_generator, stubs_data=stubs_data, out_path=out_path)

    cli_mod.create_stub_files = spy
    try:
        write_tree(d / "in", files)
        obs = run_inproc(d / "in" / src_rel, d / "out", opts, keep_out=True)
        out_abs = str((d / "out").resolve())
        targets = [(t[len(out_abs) + 1 :] if t.startswith(out_abs + "/") else "ESCAPED:" + t, txt) for t, txt in targets]
        outside = [p for p in read_tree(d) if not p.startswith("in/") and not p.startswith("out/")]
        return obs, targets, outside
    finally:
        cli_mod.create_stub_files = orig
        shutil.rmtree(d, ignore_errors=True)


def layout_violations(stubs: dict[str, str], all_files: dict[str, str], api_name: str, module_names: set[str]) -> list[tuple[str, str, dict]]:
    out: list[tuple[str, str, dict]] = []
    for rel in all_files:
        if rel.endswith(".sdsstub"):
            continue
        if rel == api_name:
            continue
        out.append(("only-stubs-and-api", "other-file", {"file": rel}))
    if api_name not in all_files:
        out.append(("api-file-name", "missing", {"expected": api_name, "present": [f for f in all_files if f.endswith(".json")]}))
    for rel, text in stubs.items():
        try:
            m = parse_stub(text, rel)
        except SdsSyntaxError:
            continue  # C02's
        parts = rel.split("/")
        dir_parts, base = parts[:-1], parts[-1][: -len(".sdsstub")]
        announced = m.py_module.split(".")
        if dir_parts != announced:
            out.append(("dir-equals-module-path", f"{len(dir_parts)}vs{len(announced)}", {"file": rel, "announces": m.py_module}))
        allowed = {announced[-1].lstrip("_")}
        if len(m.decls) == 1:
            allowed.add(m.decls[0].py_name.lstrip("_"))
        allowed |= {n.lstrip("_") for n in module_names}
        if base not in allowed:
            out.append(("base-name", "mismatch", {"file": rel, "announces": m.py_module, "decls": [d.py_name for d in m.decls][:4]}))
        if base.startswith("_"):
            out.append(("base-name", "leading-underscore", {"file": rel}))
    return out


COLLISIONS = {
    # name -> files (relative to vpkg/): inputs built to make two stub texts target one path
    "modules _m and m both re-exported": {"c1/__init__.py": "from . import _m\nfrom . import m\n", "c1/_m.py": "def fa() -> int:\n    return 1\n", "c1/m.py": "def fb() -> int:\n    return 1\n"},
    "classes _X and X re-exported (alias public)": {"c2/__init__.py": "from ._i import _X as PX\nfrom ._i import X\n", "c2/_i.py": "class _X:\n    def a(self) -> int:\n        return 1\n\n\nclass X:\n    def b(self) -> int:\n        return 1\n"},
    "re-exported declaration named like re-exported module": {"c3/__init__.py": "from . import _w as w\nfrom ._v import w as w2\n", "c3/_w.py": "def fw() -> int:\n    return 1\n", "c3/_v.py": "def w() -> int:\n    return 1\n"},
    "module m and module _m in one package": {"c4/__init__.py": "", "c4/_m.py": "def fa() -> int:\n    return 1\n", "c4/m/__init__.py": "", "c4/m/m.py": "def fb() -> int:\n    return 1\n"},
    "re-exported function named like a module's stub": {"c5/__init__.py": "from ._z import q\n", "c5/_z.py": "def q() -> int:\n    return 1\n", "c5/q.py": "def other() -> int:\n    return 1\n"},
    "foreign class module named like a package module": {"c6/__init__.py": "", "c6/user.py": "import collections\n\n\ndef f(a: collections.OrderedDict) -> None:\n    ...\n"},
    "re-exported function named like its package": {"render/__init__.py": "from ._render import render\n", "render/_render.py": "def render(a: int) -> int:\n    return a\n"},
    "re-exported declaration is a prefix of its package name": {"scales/__init__.py": "from ._impl import scale, Sc\n", "scales/_impl.py": "def scale(a: int) -> int:\n    return a\n\n\nclass Sc:\n    def m(self) -> int:\n        return 1\n", "scales/deep/__init__.py": "", "scales/deep/detail.py": "def d() -> int:\n    return 1\n"},
    "re-exported class named like an ancestor package": {"Outer/__init__.py": "", "Outer/inner/__init__.py": "from ._m import Outer\n", "Outer/inner/_m.py": "class Outer:\n    def m(self) -> int:\n        return 1\n"},
    "module named like its package": {"same/__init__.py": "", "same/same.py": "def same() -> int:\n    return 1\n\n\nclass Same:\n    pass\n"},
    "enum of a sibling module used as a type": {"c8/__init__.py": "", "c8/colors.py": "from enum import Enum\n\n\nclass Color(Enum):\n    RED = 1\n\n\ndef mix(a: int) -> int:\n    return a\n", "c8/paint.py": "from vpkg.c8.colors import Color\n\n\ndef paint(c: Color) -> Color:\n    return c\n"},
    "class of a sibling module used as a type": {"c9/__init__.py": "", "c9/shapes.py": "class Shape:\n    def area(self) -> int:\n        return 1\n\n\ndef mk() -> Shape:\n    return Shape()\n", "c9/draw.py": "from vpkg.c9.shapes import Shape\n\n\ndef draw(c: Shape) -> Shape:\n    return c\n"},
    "NewType of a sibling module used as a type": {"c10/__init__.py": "", "c10/nt.py": "from typing import NewType\n\nUserId = NewType('UserId', int)\n\n\nclass Holder:\n    def h(self) -> int:\n        return 1\n", "c10/use.py": "from vpkg.c10.nt import UserId\n\n\ndef use(u: UserId) -> int:\n    return 1\n"},
    "names with two leading underscores": {"c12/__init__.py": "from . import __core\nfrom ._v import __vi__\n", "c12/__core.py": "def fc() -> int:\n    return 1\n", "c12/_v.py": "def __vi__() -> int:\n    return 1\n", "c12/__plain.py": "def fp() -> int:\n    return 1\n"},
    "alias of a class whose name ends with another re-exported name": {"c13/__init__.py": "from ._m2 import Bar, FooBar as FB\n", "c13/_m2.py": "class Bar:\n    def b(self) -> int:\n        return 1\n\n\nclass FooBar:\n    def f(self) -> int:\n        return 1\n", "c13/pub.py": "def p() -> int:\n    return 1\n"},
    "two classes with one name re-exported, one under an alias": {"c14/__init__.py": "from ._a import Foo\nfrom ._b import Foo as BFoo\nfrom ._a import fun as f1\nfrom ._b import fun as f2\n", "c14/_a.py": "class Foo:\n    def a(self) -> int:\n        return 1\n\n\ndef fun() -> int:\n    return 1\n", "c14/_b.py": "class Foo:\n    def b(self) -> int:\n        return 1\n\n\ndef fun() -> str:\n    return ''\n", "c14/pub.py": "def p() -> int:\n    return 1\n"},
    "same class re-exported by two packages": {"c7/__init__.py": "from .p1._i import K\n", "c7/p1/__init__.py": "from ._i import K\n", "c7/p1/_i.py": "class K:\n    def k(self) -> int:\n        return 1\n"},
}


def run(rep: Report, tier: str, seed: int) -> None:
    specs = enumerate_trees(tier)
    rep.rule = (
        "C03 trees (packed 120 per run) x naming conversion off/on, every output file checked; 17 inputs built to collide or to confuse the path computation (two stub texts for one path, declarations named like / prefix of the re-exporting package, class named like an ancestor package, module named like its package);"
        " console-script runs over 8 spellings of source/output path (absolute, relative, trailing slash, '..', pre-existing output, output inside source's parent, source given as parent directory); distinct = distinct (tree/input label, options)"
    )
    spec_by_tid = {s.tid: s for s in specs}
    module_names_by_tree = {s.tid: {m.split(".")[-1] for m in s.modules} for s in specs}
    all_module_names: set[str] = set()
    for v in module_names_by_tree.values():
        all_module_names |= v
    for s in specs:
        all_module_names |= {f"ma{s.T}", f"mb{s.T}"}

    jobs = []
    for convert in (False, True):
        opts = Opts(convert=convert)
        for i in range(0, len(specs), 120):
            chunk = specs[i : i + 120]
            files, src = pack_trees(chunk)
            jobs.append((("trees", chunk, opts, files), job_layout, (files, src, opts)))
    for name, fs in COLLISIONS.items():
        for convert in (False, True):
            files = {f"{PKG}/__init__.py": ""}
            files.update({f"{PKG}/{k}": v for k, v in fs.items()})
            jobs.append((("collision", name, Opts(convert=convert), files), job_layout, (files, PKG, Opts(convert=convert))))

    def on_result(tag, value) -> None:
        kind, what, opts, files = tag
        obs, targets, outside = value
        labels = [f"{s.label}|{opts.key()}" for s in what] if kind == "trees" else [f"collision:{what}|{opts.key()}"]
        for lb in labels:
            rep.case(lb, True, sample={"input": lb} if hash(lb) % 499 == 0 else None)
        feat = "trees" if kind == "trees" else f"collision:{what}"
        if obs.outcome != "completed":
            # a run that does not complete writes no layout at all: reported here (these inputs are not in C01's alphabet)
            if kind == "collision":
                rep.violation("run-completes", f"run:{obs.outcome}:{obs.crash_sig()}|{feat}|{'nc' if opts.convert else 'py'}", {"input": feat, "exc": obs.exc_type + ": " + obs.exc_msg, "tb": obs.exc_tb[-500:]}, files=files, src_rel=PKG, opts=opts, obs=obs)
            else:
                rep.violation("run-completes", f"run:{obs.outcome}:{obs.crash_sig()}|trees|{'nc' if opts.convert else 'py'}", {"exc": obs.exc_type + ": " + obs.exc_msg, "tb": obs.exc_tb[-500:]}, files=None, src_rel=PKG, opts=opts, obs=obs)
            return
        names = all_module_names if kind == "trees" else {Path(k).stem for k in files if not k.endswith("__init__.py")} | {"w", "w2", "PX"}
        for clause, f2, detail in layout_violations(obs.stubs(), obs.files, f"{PKG}__api.json", names):
            rep.violation(clause, f"{clause}:{f2}|{feat}|{'nc' if opts.convert else 'py'}", {"input": feat, **detail}, files=files if kind == "collision" else None, src_rel=PKG, opts=opts)
        if not outside:
            rep.ok("inside-out")
        for p in outside:
            rep.violation("inside-out", f"inside-out|{feat}", {"file_outside_out": p}, files=files if kind == "collision" else None, src_rel=PKG, opts=opts)
        seen: dict[str, str] = {}
        for path, text in targets:
            if path.startswith("ESCAPED:"):
                rep.violation("inside-out", f"inside-out:target|{feat}", {"target": path}, files=files if kind == "collision" else None, src_rel=PKG, opts=opts)
            if path in seen and seen[path] != text:
                f3, fl3 = feat, files if kind == "collision" else None
                mt = re.search(r"/t(\d{4})/", path)
                if kind == "trees" and mt and int(mt.group(1)) in spec_by_tid:
                    s3 = spec_by_tid[int(mt.group(1))]
                    f3 = f"tree:{s3.label.split('|')[0]}{'+shadow' if s3.shadow else ''}|root:{s3.r_root}|sub:{s3.r_sub}"
                    fl3 = pack_trees([s3])[0]
                rep.violation("one-text-per-path", f"one-text-per-path|{f3}|{'nc' if opts.convert else 'py'}", {"path": path, "first": seen[path][:200], "second": text[:200]}, files=fl3, src_rel=PKG, opts=opts)
            else:
                rep.ok("one-text-per-path")
            seen[path] = text
        # foreign-class placeholder files are written after the module stubs: they must not overwrite one
        for path, text in seen.items():
            final = obs.files.get(path)
            # (placeholder classes may be APPENDED to a file written in the same run - the tool does the same for several
            # classes of one foreign module; the text the generator produced for the path must survive as a whole)
            if final is not None and not final.startswith(text):
                rep.violation("one-text-per-path", f"one-text-per-path:overwritten|{feat}", {"path": path, "generator_text": text[:200], "file_text": final[:200]}, files=files if kind == "collision" else None, src_rel=PKG, opts=opts)
        rep.ok("layout")

    run_jobs(jobs, on_result)

    # ---- L0: path spellings (one packed package of the first 60 trees)
    chunk = specs[:60]
    files, _ = pack_trees(chunk)
    d = fresh_dir("p")
    try:
        write_tree(d / "in", files)
        ref_obs = None
        variants = [
            ("abs/abs", str(d / "in" / PKG), str(d / "o1"), d, d / "o1", "vpkg"),
            ("rel/rel", f"in/{PKG}", "o2", d, d / "o2", "vpkg"),
            ("trailing-slash", f"in/{PKG}/", "o3/", d, d / "o3", "vpkg"),
            ("dotdot", f"in/../in/{PKG}", "x/../o4", d, d / "o4", "vpkg"),
            ("cwd-is-src-parent", PKG, "../o5", d / "in", d / "o5", "vpkg"),
            ("out-preexisting", f"in/{PKG}", "o6", d, d / "o6", "vpkg"),
            ("out-nested-new-dirs", f"in/{PKG}", "o7/a/b", d, d / "o7" / "a" / "b", "vpkg"),
            ("src-is-parent-dir", "in", "o8", d, d / "o8", "in"),
        ]
        (d / "o6").mkdir()
        (d / "x").mkdir()
        for name, src, out, cwd, out_abs, stem in variants:
            before = set(read_tree(d))
            obs = run_cli(src, out, Opts(), cwd=cwd, out_abs_for_read=out_abs)
            rep.case(f"paths:{name}", True, sample={"variant": name, "src": src, "out": out})
            if obs.outcome != "completed":
                rep.violation("run-completes", f"run:{obs.outcome}:{obs.crash_sig()}|paths:{name}", {"variant": name, "exc": obs.exc_type + ": " + obs.exc_msg, "tb": obs.exc_tb[-400:]}, files=files, src_rel=PKG, opts=Opts(), obs=obs)
                continue
            after = set(read_tree(d))
            rel_out = str(out_abs.relative_to(d))
            new_outside = [p for p in after - before if not p.startswith(rel_out + "/") and ".mypy_cache" not in p]
            for p in new_outside:
                rep.violation("inside-out", f"inside-out|paths:{name}", {"file_outside_out": p})
            if not new_outside:
                rep.ok("inside-out")
            for clause, f2, detail in layout_violations(obs.stubs(), obs.files, f"{stem}__api.json", all_module_names):
                rep.violation(clause, f"{clause}:{f2}|paths:{name}", {"variant": name, **detail})
            if ref_obs is None:
                ref_obs = obs
            elif obs.stubs() != ref_obs.stubs():
                diff = sorted(set(obs.stubs()) ^ set(ref_obs.stubs()))[:5]
                rep.violation("layout-independent-of-spelling", f"spelling|paths:{name}", {"variant": name, "file_set_difference": diff})
            else:
                rep.ok("layout-independent-of-spelling")
    finally:
        shutil.rmtree(d, ignore_errors=True)
    rep.extra["trees"] = len(specs)
    rep.assumptions = [
        "the module path a stub announces is the @PythonModule argument, else its package declaration",
        "the base name may be the module name (or its re-export alias) or the name of the single declaration the file contains, leading underscores removed",
        "write targets are observed by wrapping create_stub_files in the harness (no source hook) and by the final directory contents",
    ]
