"""C14 - type-source preference settles only real conflicts; warnings never alter output (E1 product over options)."""

from __future__ import annotations

import itertools

from ..driver import Obs, Opts
from ..explore import run_packed
from ..pkg import PKG, Case, index_stubs, pack
from ..report import Report
from .c05 import norm

# SameK / OtherK: classes that EVERY case module defines under these short names (the same text means a different class per module)
TYPES = [None, "int", "str", "list[int]", "tuple[int, str]", "tuple[str, int]", "SameK", "OtherK"]
LOCAL_HEADER = "class SameK:\n    pass\n\n\nclass OtherK:\n    pass\n\n\n"
_I, _S = frozenset([("n", "Int", ())]), frozenset([("n", "String", ())])
IMG = {"int": _I, "str": _S, "list[int]": frozenset([("n", "List", (_I,))]), "tuple[int, str]": frozenset([("n", "Tuple", (_I, _S))]), "tuple[str, int]": frozenset([("n", "Tuple", (_S, _I))]),
       "SameK": frozenset([("n", "SameK", ())]), "OtherK": frozenset([("n", "OtherK", ())])}
STYLES = ["NUMPYDOC", "GOOGLE", "REST"]
FREE = "whatever the caller passed in"  # a documented 'type' that is prose: the docstring gives no type
# *_selfnames: explicit (non-receiver) parameters that are NAMED self / cls
OWNERS = ["function", "method", "ctor", "ctor_initdoc", "function_selfnames", "static_selfnames", "function_twinnames"]
# constructor parameters documented in the CLASS docstring ("ctor") or in the docstring of __init__ itself ("ctor_initdoc", seed C14f)
CTOR_OWNERS = ("ctor", "ctor_initdoc")


def docstring(style: str, params: list[tuple[str, str | None]], results: list[tuple[str | None, str | None]], ind: str) -> str:
    """Docstring text (without quotes) documenting parameters (name, doc type) and results (name, doc type)."""
    lines = ["Summary."]
    if style == "NUMPYDOC":
        if params:
            lines += ["", "Parameters", "----------"]
            for n, t in params:
                lines += [f"{n} : {t}" if t else n, "    Description."]
        if results:
            lines += ["", "Returns", "-------"]
            for n, t in results:
                lines += [f"{n} : {t}" if n else f"{t}", "    Description."]
    elif style == "GOOGLE":
        if params:
            lines += ["", "Args:"]
            for n, t in params:
                lines += [f"    {n} ({t}): Description." if t else f"    {n}: Description."]
        if results:
            lines += ["", "Returns:"]
            n, t = results[0]
            lines += [f"    {t}: Description."]
    else:
        lines += [""]
        for n, t in params:
            lines += [f":param {n}: Description."] + ([f":type {n}: {t}"] if t else [])
        if results:
            n, t = results[0]
            lines += [":returns: Description.", f":rtype: {t}"]
    return ("\n" + ind).join(lines) + "\n" + ind


def render(cid: int, style: str, owner: str, params: list[tuple[str | None, str | None]], results: list[tuple[str | None, str | None]]) -> str:
    """params: (hint, doc type) per parameter; results: (hint, doc type) per result (0-2)."""
    names = [f"p{i}" for i in range(len(params))]
    if owner.endswith("_selfnames"):
        names = ["self", "cls"][: len(params)]
    if owner == "function_twinnames":
        # names that differ only by a trailing / leading underscore
        names = ["fmt", "fmt_", "_fmt"][: len(params)]
    sig = ", ".join(f"{n}: {h}" if h else n for n, (h, _) in zip(names, params, strict=True))
    rhints = [h for h, _ in results]
    if not results or all(h is None for h in rhints):
        ret = ""
    elif len(results) == 1:
        ret = f" -> {rhints[0]}"
    else:
        ret = " -> tuple[" + ", ".join(h or "int" for h in rhints) + "]"
    pdoc = [(n, d) for n, (_, d) in zip(names, params, strict=True)]
    rdoc = [(f"r{i}" if style == "NUMPYDOC" else None, d) for i, (_, d) in enumerate(results) if d]
    if owner == "tuple_whole":
        # ONE docstring entry that documents the whole tuple a function returns
        doc = results[0][1]
        return f'def f{cid}(){ret}:\n    """{docstring(style, [], [(None, doc)] if doc else [], "    ")}"""\n    ...\n'
    if owner == "static_selfnames":
        return f'class K{cid}:\n    @staticmethod\n    def f{cid}({sig}){ret}:\n        """{docstring(style, pdoc, rdoc, "        ")}"""\n        ...\n'
    if owner == "ext_hint":
        return f'from collections.abc import Callable\nfrom typing import Any, Dict, List, Literal, Optional, Union\n\n\ndef f{cid}({sig}){ret}:\n    """{docstring(style, pdoc, rdoc, "    ")}"""\n    ...\n'
    if owner in ("function", "function_selfnames", "function_twinnames"):
        return f'def f{cid}({sig}){ret}:\n    """{docstring(style, pdoc, rdoc, "    ")}"""\n    ...\n'
    if owner == "method":
        s2 = ", ".join(x for x in ("self", sig) if x)
        return f'class K{cid}:\n    def f{cid}({s2}){ret}:\n        """{docstring(style, pdoc, rdoc, "        ")}"""\n        ...\n'
    s2 = ", ".join(x for x in ("self", sig) if x)
    if owner == "ctor_initdoc":
        return f'class K{cid}:\n    def __init__({s2}) -> None:\n        """{docstring(style, pdoc, [], "        ")}"""\n        ...\n'
    return f'class K{cid}:\n    """{docstring(style, pdoc, [], "    ")}"""\n\n    def __init__({s2}) -> None:\n        ...\n'


def enumerate_cases(tier: str, style: str):
    pairs = list(itertools.product(TYPES, TYPES))
    # a tuple annotation in result position means several results (C07): results use the non-tuple types only
    rpairs = [(h, d) for h, d in pairs if not (h or "").startswith("tuple") and not (d or "").startswith("tuple")]
    # one parameter varied
    for owner in OWNERS:
        for p in pairs:
            yield owner, [p], []
        for p in pairs:
            yield owner, [("int", "int"), p], []
    # one result varied (functions and methods)
    for owner in ("function", "method"):
        for r in rpairs:
            if r == (None, None):
                continue
            yield owner, [("int", None)], [r]
    if style == "NUMPYDOC":
        for r1, r2 in itertools.product([x for x in rpairs if x[0] is not None], repeat=2):
            if (r1[1] is None) != (r2[1] is None):
                continue  # which result a lone documented entry belongs to is not defined by the statement
            if tier == "quick" and not (r1[0] == "int" or r2[0] == "int"):
                continue
            yield "function", [], [r1, r2]
        # the FIRST entry's type is free text that no type can be made of (only the hint gives a type for it); the
        # second entry's type still has to reach the SECOND result
        for h1 in ("int", "str"):
            for r2 in [x for x in rpairs if x[0] is not None and x[1] is not None]:
                yield "function", [], [(h1, FREE), r2]
    for h in EXT_HINTS:
        yield "ext_hint", [(h, None)], []
    for doc in (None, "tuple[int, str]", "tuple[int, int]"):
        yield "tuple_whole", [], [("tuple[int, str]", doc)]
    if tier == "thorough":
        for p1, p2 in itertools.product(pairs, repeat=2):
            for r in [(None, None), ("int", "int"), ("int", "str"), (None, "str"), ("str", None)]:
                yield "function", [p1, p2], ([] if r == (None, None) else [r])
                if r == (None, None):
                    yield "ctor", [p1, p2], []


# hints whose translation is C05's subject; here only: documented WITHOUT a type, they must come out the same under both
# preferences and never raise a discrepancy warning (only one source gives a type)
EXT_HINTS = ['Literal["x"]', "Literal[1, 2]", "int | None", "Optional[str]", "dict[str, int]", "Callable[[int], str]", "list[int | None]", "Union[int, str]", "set[str]", "float", "bool", "Any", "dict", "list", "tuple", "List[int]", "Dict[str, int]"]


def render_default(sp) -> str | None:
    from ..sds_parser import render_expr

    return render_expr(sp.default) if sp.default else None


def lab(owner, params, results) -> str:
    f = lambda x: "/".join(t or "-" for t in x)  # noqa: E731
    return f"{owner}|P:" + ",".join(f(p) for p in params) + "|R:" + ",".join(f(r) for r in results)


def run(rep: Report, tier: str, seed: int) -> None:
    rep.rule = (
        "per parameter and per result: hint in {absent,int,str,list[int],tuple[int,str],tuple[str,int],SameK,OtherK} x docstring type in the same set (SameK/OtherK: classes every case module defines under the same short names); one varied parameter (alone and next to a fixed one) for function/method/constructor and for a function / static method whose explicit parameters are NAMED self and cls, one varied result, two results (numpydoc; also with prose in place of the first entry's type), a tuple[int, str] return documented by ONE entry (absent / same tuple / tuple[int, int])"
        + ("; full product for two parameters x 5 result situations" if tier == "thorough" else "")
        + "; x 3 structured docstring styles; every case analysed under all four (preference, warning) pairs; distinct = distinct (style, case label)"
    )
    combos = [(tsp, tsw) for tsp in ("CODE", "DOCSTRING") for tsw in ("WARN", "IGNORE")]
    store: dict[tuple, dict[tuple[str, str], Obs]] = {}
    groups = []
    cid = itertools.count(1)
    all_cases: dict[tuple, list[Case]] = {}
    for style in STYLES:
        cases = []
        for owner, params, results in enumerate_cases(tier, style):
            if style != "NUMPYDOC" and len(results) > 1:
                continue
            c = next(cid)
            cases.append(Case(c, render(c, style, owner, params, results), (owner, params, results), (), lab(owner, params, results)))
        for i in range(0, len(cases), 1500):
            chunk = cases[i : i + 1500]
            key = (style, i)
            all_cases[key] = chunk
            for tsp, tsw in combos:
                groups.append(([key], Opts(docstyle=style, tsp=tsp, tsw=tsw)))

    def build(keys):
        return pack(all_cases[keys[0]], per_module=150, header=lambda name: LOCAL_HEADER)

    def expected_type(hint, doc, tsp):
        if doc == FREE:
            doc = None
        if hint and doc:
            return IMG[hint] if tsp == "CODE" else IMG[doc]
        return IMG[hint] if hint else (IMG[doc] if doc else None)

    def judge(key, obs_by: dict[tuple[str, str], Obs]) -> None:
        style = key[0]
        cases = all_cases[key]
        idx = {k: index_stubs(o) for k, o in obs_by.items()}
        # (4) WARN vs IGNORE byte-identical
        for tsp in ("CODE", "DOCSTRING"):
            a, b = obs_by[(tsp, "WARN")].files, obs_by[(tsp, "IGNORE")].files
            if a != b:
                diff = sorted(k for k in set(a) | set(b) if a.get(k) != b.get(k))[:5]
                rep.violation("warning-option-does-not-change-output", f"warn-vs-ignore:{tsp}|{style}", {"files_differ": diff})
            else:
                rep.ok("warning-option-does-not-change-output")
        # a type written in a module denotes that module's own class: no stub may import SameK / OtherK from elsewhere
        for combo, ix in idx.items():
            for path, m in ix.modules.items():
                foreign = [f"from {i.package} import {i.name}" for i in m.imports if i.name in ("SameK", "OtherK")]
                if foreign:
                    rep.violation("type-denotes-own-module-class", f"foreign-import:{combo[0]}|{style}", {"file": path, "imports": foreign[:3]}, files=None, src_rel=PKG, opts=Opts(docstyle=style, tsp=combo[0], tsw=combo[1]))
                else:
                    rep.ok("type-denotes-own-module-class")
        for c in cases:
            owner, params, results = c.meta
            rep.case(f"{style}|{c.label}", True, sample={"style": style, "case": c.label, "python": c.src} if c.cid % 409 == 0 else None)
            mini = {f"{PKG}/__init__.py": "", f"{PKG}/m.py": LOCAL_HEADER + c.src}

            def viol(clause, feat, detail, opts, c=c, mini=mini) -> None:
                rep.violation(clause, f"{clause}:{feat}|{style}", {"style": style, "case": c.label, "python": c.src, **detail}, files=mini, src_rel=PKG, opts=opts)

            if owner == "ext_hint":
                shown = {}
                for tsp in ("CODE", "DOCSTRING"):
                    hits = idx[(tsp, "WARN")].find(f"f{c.cid}", "fun")
                    if len(hits) == 1 and hits[0][2].params:
                        sp = hits[0][2].params[0]
                        shown[tsp] = (sp.type.render() if sp.type else None, render_default(sp))
                hint = params[0][0]
                if len(shown) == 2 and shown["CODE"] != shown["DOCSTRING"]:
                    viol("hint-only-same-under-both-preferences", f"ext:{hint}", {"CODE": shown["CODE"], "DOCSTRING": shown["DOCSTRING"]}, Opts(docstyle=style, tsp="DOCSTRING", tsw="WARN"))
                else:
                    rep.ok("hint-only-same-under-both-preferences")
                fid = f"/f{c.cid}'"
                for tsp in ("CODE", "DOCSTRING"):
                    n_warn = sum(1 for lvl, msg in obs_by[(tsp, "WARN")].logs if lvl == "WARNING" and msg.startswith("Different type hint and docstring types") and fid in msg)
                    if n_warn:
                        viol("warning-count", f"more:ext:{hint}:{tsp}", {"expected_warnings": 0, "logged": n_warn}, Opts(docstyle=style, tsp=tsp, tsw="WARN"))
                    else:
                        rep.ok("warning-count")
                continue
            if owner == "tuple_whole":
                doc = results[0][1]
                for tsp in ("CODE", "DOCSTRING"):
                    o = Opts(docstyle=style, tsp=tsp, tsw="WARN")
                    hits = idx[(tsp, "WARN")].find(f"f{c.cid}", "fun")
                    if len(hits) != 1:
                        continue
                    got = [norm(r.type) for r in (hits[0][2].results or [])]
                    exp = [_I, _I] if (tsp == "DOCSTRING" and doc == "tuple[int, int]") else [_I, _S]
                    if got == exp:
                        rep.ok(f"result-type:{tsp}")
                    else:
                        viol("result-type", f"tuple-whole:{tsp}:doc={doc}", {"expected": [str(e) for e in exp], "observed": [r.type.render() if r.type else None for r in (hits[0][2].results or [])]}, o)
                    fid = f"/f{c.cid}'"
                    n_warn = sum(1 for lvl, msg in obs_by[(tsp, "WARN")].logs if lvl == "WARNING" and msg.startswith("Different type hint and docstring types") and fid in msg)
                    ok = (n_warn == 0) if doc in (None, "tuple[int, str]") else (n_warn >= 1)
                    if ok:
                        rep.ok("warning-count")
                    else:
                        viol("warning-count", f"{'more' if n_warn else 'fewer'}:tuple-whole:{tsp}:doc={doc}", {"logged": n_warn}, o)
                continue
            for tsp in ("CODE", "DOCSTRING"):
                o = Opts(docstyle=style, tsp=tsp, tsw="WARN")
                ix = idx[(tsp, "WARN")]
                hits = ix.find(f"K{c.cid}", "class") if owner in CTOR_OWNERS else ix.find(f"f{c.cid}", "fun")
                if len(hits) != 1:
                    rep.extra["decl_not_found(C03)"] = rep.extra.get("decl_not_found(C03)", 0) + 1
                    continue
                d = hits[0][2]
                sparams = d.params or []
                if len(sparams) != len(params):
                    rep.extra["param_count_mismatch(C06)"] = rep.extra.get("param_count_mismatch(C06)", 0) + 1
                    continue
                for i, ((hint, doc), sp) in enumerate(zip(params, sparams, strict=True)):
                    want = expected_type(hint, doc, tsp)
                    got = norm(sp.type)
                    kind = "both" if hint and doc else ("one" if hint or doc else "none")
                    if got == want:
                        rep.ok(f"param-type:{kind}:{tsp}")
                    else:
                        viol("param-type", f"{kind}:{tsp}:{owner}:hint={hint}:doc={doc}", {"param": i, "expected": str(want), "observed": sp.type.render() if sp.type else None}, o)
                if owner not in CTOR_OWNERS:
                    sres = d.results or []
                    exp = [expected_type(h, dc, tsp) for h, dc in results]
                    exp = [e for e in exp if e is not None]
                    got = [norm(r.type) for r in sres]
                    kinds = "+".join(("free" if dc == FREE else "both") if h and dc else "one" for h, dc in results) or "none"
                    if got == exp:
                        rep.ok(f"result-type:{tsp}")
                    else:
                        viol("result-type", f"{kinds}:{tsp}:{owner}:" + ",".join(f"{h}/{dc}" for h, dc in results), {"expected": [str(e) for e in exp], "observed": [r.type.render() if r.type else None for r in sres]}, o)
                # (5) warnings: exactly one per parameter/result whose two types differ, none with IGNORE
                fid = f"/f{c.cid}'" if owner not in CTOR_OWNERS else f"/K{c.cid}/__init__'"
                n_warn = sum(1 for lvl, msg in obs_by[(tsp, "WARN")].logs if lvl == "WARNING" and msg.startswith("Different type hint and docstring types") and fid in msg)
                n_ign = sum(1 for lvl, msg in obs_by[(tsp, "IGNORE")].logs if lvl == "WARNING" and msg.startswith("Different type hint and docstring types") and fid in msg)
                want_n = sum(1 for h, dc in params if h and dc and h != dc) + sum(1 for h, dc in (results if owner not in CTOR_OWNERS else []) if h and dc and dc != FREE and h != dc)
                if n_warn != want_n:
                    differing = [(h, dc) for h, dc in [*params, *(results if owner not in CTOR_OWNERS else [])] if h and dc and dc != FREE and h != dc]
                    n_oo = sum(1 for h, dc in differing if sorted(__import__("re").findall(r"\w+", h)) == sorted(__import__("re").findall(r"\w+", dc)))
                    # exactly the order-only conflicts are missing -> the (known) order-insensitive comparison, nothing else
                    order_only = n_oo > 0 and n_warn == want_n - n_oo
                    viol("warning-count", f"{'fewer' if n_warn < want_n else 'more'}{':order-only' if order_only else ''}:{tsp}:{owner}", {"expected_warnings": want_n, "logged": n_warn}, o)
                else:
                    rep.ok("warning-count")
                if n_ign:
                    viol("no-warning-when-ignored", f"{tsp}:{owner}", {"logged": n_ign}, Opts(docstyle=style, tsp=tsp, tsw="IGNORE"))
                else:
                    rep.ok("no-warning-when-ignored")

    def on_group(keys, opts: Opts, obs: Obs, files) -> None:
        key = keys[0]
        if obs.outcome != "completed":
            rep.violation("run-completes", f"run:{obs.outcome}:{obs.crash_sig()}|{key[0]}", {"style": key[0], "exc": obs.exc_type + ": " + obs.exc_msg, "tb": obs.exc_tb[-600:]}, files=files, src_rel=PKG, opts=opts, obs=obs)
            return
        slot = store.setdefault(key, {})
        slot[(opts.tsp, opts.tsw)] = obs
        if len(slot) == 4:
            judge(key, slot)
            del store[key]

    stats: dict[str, int] = {}
    run_packed(groups, build, on_group, stats)
    rep.extra.update(stats)
    rep.extra["unjudged_groups"] = len(store)
    rep.assumptions = [
        "defaults / optionality taken from docstrings under the DOCSTRING preference are not judged (the statement speaks of types)",
        "only WARNING records whose message starts with 'Different type hint and docstring types' are counted",
    ]
