"""C06 - parameter lists are reproduced exactly (E1 over signatures, DESIGN.md 6/C06)."""

from __future__ import annotations

import itertools
from dataclasses import dataclass

from ..driver import Obs, Opts, confirm_fresh
from ..explore import run_packed
from ..pkg import PKG, Case, api_index, index_stubs, pack, short
from ..report import Report
from ..sds_parser import expr_value, render_expr

# default-value letters: (source text, python value, annotation that fits)
DV = [
    ("1", 1, "int"), ("-1", -1, "int"), ("+1", 1, "int"), ("0", 0, "int"), ("1.5", 1.5, "float"), ("-1.5", -1.5, "float"),
    ("2.0", 2.0, "float"), ("1e100", 1e100, "float"), ('"s"', "s", "str"), ('""', "", "str"), ("'a b'", "a b", "str"),
    ("True", True, "bool"), ("False", False, "bool"), ("None", None, "int | None"),
    ("1e999", float("inf"), "float"), ("-1e999", float("-inf"), "float"), ("'a\\nb'", "a\nb", "str"), ("'q\"q'", 'q"q', "str"), ("'b\\\\s'", "b\\s", "str"), ("'{x}'", "{x}", "str"),
]  # fmt: skip
NONLIT = [("2**3", "int"), ("[]", "list[int]"), ("int()", "int"), ("_CONST", "int"), ("not 1", "int")]

OWNERS = ["func", "method", "static", "classm", "ctor", "method_this", "static_self", "nested", "func_self", "inherited"]
HAS_RECEIVER = {"method": "self", "classm": "cls", "ctor": "self", "method_this": "this", "nested": "self", "inherited": "self"}
N_HEIRS = 3  # public subclasses that show the method of one private superclass (owner "inherited")


@dataclass(frozen=True)
class P:
    kind: str  # PO PK VA KO KW
    name: str
    annot: str | None
    default: str | None  # source text
    value: object = None  # python value when literal
    literal: bool = False


def kind_sequences(max_len: int):
    """All Python-legal kind sequences with at most max_len parameters (bare '*' is implied before KO when no VA)."""
    out = []
    for npo in range(max_len + 1):
        for npk in range(max_len + 1 - npo):
            for va in (0, 1):
                for nko in range(max_len + 1 - npo - npk - va):
                    for kw in (0, 1):
                        if npo + npk + va + nko + kw <= max_len:
                            out.append(("PO",) * npo + ("PK",) * npk + ("VA",) * va + ("KO",) * nko + ("KW",) * kw)
    out.sort(key=lambda s: (len(s), s))
    return out


def default_patterns(kinds):
    """Legal default-presence patterns: among PO+PK defaults must be a suffix; KO free; VA/KW never."""
    pos = [i for i, k in enumerate(kinds) if k in ("PO", "PK")]
    kos = [i for i, k in enumerate(kinds) if k == "KO"]
    for nd in range(len(pos) + 1):
        pos_def = set(pos[len(pos) - nd :])
        for r in range(len(kos) + 1):
            for ko_def in itertools.combinations(kos, r):
                yield pos_def | set(ko_def)


def render_sig(params: list[P]) -> str:
    parts = []
    seen_po = any(p.kind == "PO" for p in params)
    prev = None
    for p in params:
        if prev == "PO" and p.kind != "PO":
            parts.append("/")
        if p.kind == "KO" and prev not in ("KO", "VA"):
            parts.append("*")
        s = {"VA": "*", "KW": "**"}.get(p.kind, "") + p.name
        if p.annot:
            s += f": {p.annot}"
        if p.default is not None:
            s += (" = " if p.annot else "=") + p.default
        parts.append(s)
        prev = p.kind
    if seen_po and prev == "PO":
        parts.append("/")
    return ", ".join(parts)


def render_case(cid: int, owner: str, params: list[P]) -> str:
    sig = render_sig(params)
    body = "        return None\n"
    if owner in ("func", "func_self"):
        return f"def f{cid}({sig}) -> None:\n    return None\n"
    recv = HAS_RECEIVER.get(owner)
    full = ", ".join(x for x in (recv, sig) if x)
    deco = {"static": "    @staticmethod\n", "static_self": "    @staticmethod\n", "classm": "    @classmethod\n"}.get(owner, "")
    name = "__init__" if owner == "ctor" else f"f{cid}"
    meth = f"{deco}    def {name}({full}) -> None:\n{body}"
    if owner == "inherited":
        heirs = "".join(f"\n\nclass H{cid}x{k}(_B{cid}):\n    pass\n" for k in range(N_HEIRS))
        return f"class _B{cid}:\n{meth}{heirs}"
    if owner == "nested":
        meth = "\n".join("    " + ln if ln else ln for ln in meth.split("\n"))
        return f"class C{cid}:\n    class N{cid}:\n{meth}"
    return f"class C{cid}:\n{meth}"


def make_params(kinds, defaults: set[int], annots: set[int], dv_for: dict[int, tuple] | None = None, owner: str = "func") -> list[P]:
    ps = []
    for i, k in enumerate(kinds):
        name = f"p{i}"
        if i == 0 and owner in ("static_self", "func_self") and k in ("PO", "PK"):
            name = "self"
        if k == "VA":
            ps.append(P(k, "args", "int" if i in annots else None, None))
        elif k == "KW":
            ps.append(P(k, "kwargs", "int" if i in annots else None, None))
        else:
            if i in defaults:
                src, val, ann = (dv_for or {}).get(i, DV[0])
                lit = (src, ann) not in NONLIT
                ps.append(P(k, name, ann if i in annots else None, src, val, lit))
            else:
                ps.append(P(k, name, "int" if i in annots else None, None))
    return ps


def enumerate_cases(tier: str):
    """Yield (owner, params, label) simplest first."""
    max_len = 3 if tier == "quick" else 5
    for kinds in kind_sequences(max_len):
        n = len(kinds)
        if tier == "quick":
            annot_patterns = [set(range(n)), set()] + ([set(range(0, n, 2))] if n >= 2 else [])
        elif n <= 3:
            annot_patterns = [set(c) for r in range(n + 1) for c in itertools.combinations(range(n), r)]
        else:
            annot_patterns = [set(range(n)), set(), set(range(0, n, 2)), set(range(1, n, 2))]
        for defaults in default_patterns(kinds):
            for annots in annot_patterns:
                for owner in OWNERS:
                    if owner in ("static_self", "func_self") and not (kinds and kinds[0] in ("PO", "PK")):
                        continue
                    if tier == "thorough" and n >= 5 and owner in ("method_this", "nested", "func_self", "inherited"):
                        continue
                    ps = make_params(kinds, defaults, annots, None, owner)
                    yield owner, ps, f"{owner}|{','.join(kinds)}|d{sorted(defaults)}|a{sorted(annots)}"
    # every default letter in every kind position of a two-parameter signature (and alone)
    for kinds in [("PO",), ("PK",), ("KO",), ("PO", "PK"), ("PK", "PK"), ("PK", "KO"), ("KO", "KO"), ("PO", "KO")]:
        for pos in range(len(kinds)):
            for dv in DV + [(s, None, a) for s, a in NONLIT]:
                for annotated in (True, False):
                    for owner in ("func", "method", "ctor", "static") if tier == "quick" else OWNERS:
                        if owner in ("static_self", "func_self"):
                            continue
                        # the other PO/PK parameter after a defaulted one needs a default too
                        defaults = {pos} | ({1} if pos == 0 and len(kinds) == 2 and kinds[1] in ("PO", "PK") and kinds[0] in ("PO", "PK") else set())
                        dv_for = {pos: dv}
                        ps = make_params(kinds, defaults, set(range(len(kinds))) if annotated else set(), dv_for, owner)
                        yield owner, ps, f"{owner}|{','.join(kinds)}|dv{pos}={dv[0]}|{'ann' if annotated else 'raw'}"
    if tier == "thorough":
        # Dv exhaustively for two defaulted parameters
        for kinds in [("PK", "PK"), ("PK", "KO"), ("KO", "KO")]:
            for dv0 in DV:
                for dv1 in DV:
                    for owner in ("func", "method", "ctor"):
                        ps = make_params(kinds, {0, 1}, {0, 1}, {0: dv0, 1: dv1}, owner)
                        yield owner, ps, f"{owner}|{','.join(kinds)}|dv0={dv0[0]}|dv1={dv1[0]}"


EXPECT_KIND = {"PO": "POSITION_ONLY", "PK": "POSITION_OR_NAME", "VA": "POSITIONAL_VARARG", "KO": "NAME_ONLY", "KW": "NAMED_VARARG"}


def _same_value(a, b) -> bool:
    return type(a) is type(b) and a == b


def judge_case(rep: Report, case: Case, idx, api, obs: Obs, files, opts) -> None:
    owner, params = case.meta
    cid = case.cid
    # ---- stub side
    if owner == "ctor":
        hits = idx.find(f"C{cid}", "class")
        decl = hits[0][2] if hits else None
        sparams = decl.params if decl is not None else None
    else:
        hits = idx.find(f"f{cid}", "fun")
        decl = hits[0][2] if hits else None
        sparams = decl.params if decl is not None else None

    def viol(clause: str, feat: str, detail: dict) -> None:
        rep.violation(
            clause, f"{clause}:{owner}{'+docdefault' if '|docdefault:' in case.label else ('+names' if '|names:' in case.label else ('+dataclass' if '|dataclass:' in case.label else ('+noreceiver' if case.label.startswith('method-without-receiver') else '')))}:{feat}",
            {"case": case.label, "python": case.src, "stub_params": [(p.py_name, p.type.render() if p.type else None, render_expr(p.default) if p.default else None) for p in (sparams or [])], **detail},
            files={f"{PKG}/__init__.py": "", f"{PKG}/m.py": "_CONST = 3\n\n\n" + case.src}, src_rel=PKG, opts=opts, obs=None,
        )

    if owner == "inherited" and len(hits) != N_HEIRS:
        viol("emitted-once", f"heirs:{N_HEIRS}->{len(hits)}", {"hits": len(hits)})
    def judge_shown(decl) -> None:  # noqa: ANN001
        nonlocal sparams
        sparams = decl.params if decl is not None else None
        if decl is None or sparams is None:
            rep.extra["not_emitted"] = rep.extra.get("not_emitted", 0) + 1
        else:
            exp = list(params)  # receiver is not part of `params`
            if len(hits) > 1 and owner != "inherited":
                viol("emitted-once", "dup", {"hits": len(hits)})
            if len(sparams) != len(exp):
                viol("count", f"{len(exp)}->{len(sparams)}", {"expected": [p.name for p in exp]})
            else:
                rep.ok("count")
                names_ok = all(sp.py_name == p.name for sp, p in zip(sparams, exp, strict=True))
                if not names_ok:
                    viol("order-names", ",".join(p.kind for p in exp), {"expected": [p.name for p in exp]})
                else:
                    rep.ok("order-names")
                    for sp, p in zip(sparams, exp, strict=True):
                        if p.default is not None and not p.literal:
                            rep.ok("nonliteral-present")
                            continue
                        want_default = p.default is not None
                        if (sp.default is not None) != want_default:
                            viol("default-presence", f"{p.kind}:{'ann' if p.annot else 'raw'}:{p.default}", {"param": p.name, "stub_default": render_expr(sp.default) if sp.default else None})
                            continue
                        rep.ok("default-presence")
                        if want_default:
                            try:
                                v = expr_value(sp.default)
                                good = _same_value(v, p.value)
                            except ValueError:
                                v, good = render_expr(sp.default), False
                            if good:
                                rep.ok("default-value")
                            else:
                                viol("default-value", f"{p.default}", {"param": p.name, "expected": repr(p.value), "observed": repr(v)})

    for d in ([h[2] for h in hits] if owner == "inherited" else [decl]):
        judge_shown(d)
    # ---- API JSON side
    fid_suffix = {"ctor": f"/C{cid}/__init__", "nested": f"/C{cid}/N{cid}/f{cid}", "inherited": f"/_B{cid}/f{cid}"}.get(owner)
    if fid_suffix is None:
        fid_suffix = f"/f{cid}" if owner in ("func", "func_self") else f"/C{cid}/f{cid}"
    fentry = next((e for fid, e in api.get("functions", {}).items() if fid.endswith(fid_suffix)), None)
    if fentry is None:
        viol("api-function-present", "missing", {"id_suffix": fid_suffix})
        return
    pentries = [api.get("parameters", {}).get(pid) for pid in fentry["parameters"]]
    recv = HAS_RECEIVER.get(owner)
    exp_all = ([("IMPLICIT", recv, None)] if recv else []) + [(EXPECT_KIND[p.kind], p.name, p) for p in params]
    if any(pe is None for pe in pentries) or len(pentries) != len(exp_all):
        viol("api-count", f"{len(exp_all)}->{len(pentries)}", {"api": short(pentries)})
        return
    rep.ok("api-count")
    for pe, (ekind, ename, p) in zip(pentries, exp_all, strict=True):
        if pe["name"] != ename:
            viol("api-order-names", ekind, {"expected": ename, "observed": pe["name"]})
            continue
        if pe["assigned_by"] != ekind:
            viol("api-kind", f"{ekind}->{pe['assigned_by']}", {"param": ename})
        else:
            rep.ok("api-kind")
        if p is not None and (p.default is None or p.literal):
            want_opt = p.default is not None
            if bool(pe["is_optional"]) != want_opt:
                viol("api-optional", f"{p.kind}:{p.default}", {"param": ename, "api": short(pe)})
            else:
                rep.ok("api-optional")
            if want_opt:
                dv = pe["default_value"]
                # string defaults are stored as the quoted literal text the stub shows (backslash and quote escaped)
                quoted = '"' + p.value.replace("\\", "\\\\").replace('"', '\\"') + '"' if isinstance(p.value, str) else None
                good = _same_value(dv, p.value) or (quoted is not None and dv == quoted)
                if good:
                    rep.ok("api-default-value")
                else:
                    viol("api-default-value", f"{p.default}", {"param": ename, "api": short(pe)})


def run(rep: Report, tier: str, seed: int) -> None:
    cases: list[Case] = []
    for i, (owner, params, label) in enumerate(enumerate_cases(tier)):
        cases.append(Case(i, render_case(i, owner, params), (owner, params), (), label))
    rep.rule = (
        "all Python-legal parameter-kind sequences of total length <= %d x legal default-presence patterns x annotation patterns x 10 owner kinds"
        " (method of a private superclass shown in 3 public subclasses, function, method, static, class method, constructor, receiver named 'this', static with first parameter 'self', nested-class method,"
        " module function with parameter 'self'); every default letter (20 literals incl. infinities and strings with newline / quote / backslash / brace + 5 non-literals) in every position of 1-2 parameter signatures;"
        " parameter names __x / _ / __; defaults mentioned in numpydoc / Google / reST docstrings next to 0 or 1 Python defaults (CODE preference);"
        " distinct = distinct case label (all labels are distinct, all cases have >=0 parameters and an emitted declaration)" % (3 if tier == "quick" else 5)
    )
    # ---- parameter NAMES with a meaning for other tools: a leading double underscore is not position-only in Python >= 3.8
    n0 = len(cases)
    for owner in ("func", "method", "static"):
        for names in (("__x",), ("__x", "y"), ("x", "__y"), ("_", "__")):
            ps = [P("PK", nm, "int", "1" if k == len(names) - 1 and len(names) > 1 else None, 1, True) for k, nm in enumerate(names)]
            cases.append(Case(len(cases), render_case(len(cases), owner, ps), (owner, ps), (), f"{owner}|names:{','.join(names)}"))
    # ---- constructors generated from a dataclass, and methods whose first parameter is '*args' (no receiver to remove)
    for nd in (0, 1, 2):
        ps = [P("PK", f"p{k}", "int", "5" if k >= 2 - nd else None, 5, True) for k in range(2)]
        cidx = len(cases)
        body = "".join(f"    {p.name}: int" + (f" = {p.default}" if p.default else "") + "\n" for p in ps)
        cases.append(Case(cidx, f"@dataclass\nclass C{cidx}:\n{body}", ("ctor", ps), ("from dataclasses import dataclass",), f"ctor|dataclass:{nd}-defaults"))
    for kinds in (("VA",), ("VA", "KO")):
        cidx = len(cases)
        ps = make_params(kinds, {1} if len(kinds) > 1 else set(), set(range(len(kinds))), None, "func")
        cases.append(Case(cidx, f"class C{cidx}:\n    def f{cidx}({render_sig(ps)}) -> None:\n        return None\n", ("static_self", ps), (), f"method-without-receiver|{','.join(kinds)}"))
    per_group = 2500
    groups = [(cases[i : i + per_group], Opts()) for i in range(0, len(cases), per_group)]
    # ---- defaults mentioned in DOCSTRINGS must not change what Python says (structured styles, CODE preference)
    doc_cases: dict[str, list[Case]] = {"NUMPYDOC": [], "GOOGLE": [], "REST": []}
    for style in doc_cases:
        for owner in ("func", "method"):
            for (pydef, docdef), ann in itertools.product(((None, "7"), ("3", "7"), ("3", None), (None, None), ("3", "3")), ("int", None)):
                cid = len(cases) + sum(len(v) for v in doc_cases.values())
                ps = [P("PK", "p0", ann, pydef, int(pydef) if pydef else None, True), P("PK", "p1", "int", "5", 5, True)]
                dd = {"NUMPYDOC": f"Summary.\n\n    Parameters\n    ----------\n    p0 : int{', default=' + docdef if docdef else ''}\n        The p0.\n    p1 : int, optional\n        The p1.\n    ",
                      "GOOGLE": f"Summary.\n\n    Args:\n        p0 (int): The p0.{' Defaults to ' + docdef + '.' if docdef else ''}\n        p1 (int, optional): The p1.\n    ",
                      "REST": f"Summary.\n\n    :param p0: The p0{', defaults to ' + docdef if docdef else ''}\n    :type p0: int\n    :param p1: The p1\n    :type p1: int, optional\n    "}[style]
                src = render_case(cid, owner, ps)
                ind = "        " if owner == "method" else "    "
                head, _, rest = src.rpartition(f"{ind}return None\n")
                doc = dd.replace("\n    ", "\n" + ind)
                src = head + f'{ind}"""{doc}"""\n{ind}return None\n' + rest
                doc_cases[style].append(Case(cid, src, (owner, ps), (), f"{owner}|docdefault:{style}:py={pydef}:doc={docdef}:{'ann' if ann else 'raw'}"))
    for style, cs in doc_cases.items():
        groups.append((cs, Opts(docstyle=style)))
    del n0
    stats: dict[str, int] = {}

    def build(units):
        files, src = pack(units, per_module=250)
        # the non-literal default _CONST must resolve
        for k in list(files):
            if k != f"{PKG}/__init__.py":
                files[k] = "_CONST = 3\n\n\n" + files[k]
        return files, src

    def on_group(units, opts, obs: Obs, files) -> None:
        if obs.outcome != "completed":
            for c in units:
                rep.case(c.label, True)
                rep.violation("run-completes", f"run:{obs.outcome}:{obs.crash_sig()}", {"case": c.label, "python": c.src, "exc": obs.exc_type + ": " + obs.exc_msg}, files=files, src_rel=PKG, opts=opts, obs=obs)
            return
        idx = index_stubs(obs)
        api = api_index(obs)
        for path, e in idx.errors.items():
            rep.violation("stub-parses", f"unparsable:{e.clause}", {"file": path, "error": str(e)}, files=files, src_rel=PKG, opts=opts, obs=obs)
        for c in units:
            rep.case(c.label, True, sample={"label": c.label, "python": c.src} if c.cid % 997 == 0 else None)
            judge_case(rep, c, idx, api, obs, files, opts)

    run_packed(groups, build, on_group, stats)
    rep.extra.update(stats)
    rep.extra["cases"] = len(cases)
    rep.assumptions = [
        "the Python signature written by the renderer is the ground truth (sources compile; mypy accepts them)",
        "cases are packed 250 per module / 2500 per tool run; names are unique per case, so cases cannot interact by name",
    ]
    # confirm a few unknown violations unpacked in a fresh interpreter (harness-divergence guard)
    for sig, occs in list(rep.violations.items())[:5]:
        o = occs[0]
        if o and o.get("files") and "vpkg/m.py" in o["files"]:
            fresh = confirm_fresh(o["files"], PKG, o["opts"] or Opts())
            o["obs"] = fresh
