"""C12 - the API JSON is a complete, internally consistent inventory (E1, DESIGN.md 6/C12).

Part S (structure): schema version, sorted/duplicate-free lists, id shape, referential integrity, single ownership -
evaluated on the API JSON of every run (inventory letters AND the C03 trees).
Part I (inventory): declaration letters with an explicit expected inventory (ids, flags, defaults, superclasses),
alone and in all ordered pairs per module.
"""

from __future__ import annotations

import itertools
import json

from ..driver import Obs, Opts
from ..explore import run_packed
from ..pkg import PKG, Case, pack
from ..report import Report
from ..tree import enumerate_trees, pack_trees

LISTS = ["modules", "classes", "functions", "results", "enums", "enum_instances", "attributes", "parameters"]


# ------------------------------------------------------------------------------------------------------ structure


def structure_violations(api: dict) -> list[tuple[str, str, dict]]:
    """(clause, feature, detail) for every structural defect of one API JSON document."""
    out: list[tuple[str, str, dict]] = []
    if api.get("schemaVersion") != 1:
        out.append(("schema-version", "value", {"schemaVersion": api.get("schemaVersion")}))
    ids: dict[str, dict[str, dict]] = {}
    for lst in LISTS:
        entries = api.get(lst)
        if not isinstance(entries, list):
            out.append(("list-present", lst, {}))
            ids[lst] = {}
            continue
        seq = [e.get("id") for e in entries]
        if seq != sorted(seq):
            out.append(("sorted", lst, {"first_unsorted": next((a for a, b in zip(seq, sorted(seq), strict=True) if a != b), None)}))
        seen: dict[str, dict] = {}
        for e in entries:
            if e["id"] in seen:
                out.append(("no-duplicates", lst, {"id": e["id"]}))
            seen[e["id"]] = e
        ids[lst] = seen
    # id shape + ownership
    owner_refs: dict[tuple[str, str], list[str]] = {}

    def ref(owner_id: str, lst: str, child_id: str, how: str) -> None:
        if child_id not in ids[lst]:
            out.append(("reference-resolves", f"{how}->{lst}", {"owner": owner_id, "missing": child_id}))
        if not child_id.startswith(owner_id + "/") or "/" in child_id[len(owner_id) + 1 :]:
            out.append(("id-shape", f"{how}->{lst}", {"owner": owner_id, "child": child_id}))
        owner_refs.setdefault((lst, child_id), []).append(owner_id)

    for m in ids["modules"].values():
        for c in m.get("classes", []):
            ref(m["id"], "classes", c, "module.classes")
        for f in m.get("functions", []):
            ref(m["id"], "functions", f, "module.functions")
        for e in m.get("enums", []):
            ref(m["id"], "enums", e, "module.enums")
    for c in ids["classes"].values():
        for a in c.get("attributes", []):
            ref(c["id"], "attributes", a, "class.attributes")
        for f in c.get("methods", []):
            ref(c["id"], "functions", f, "class.methods")
        for k in c.get("classes", []):
            ref(c["id"], "classes", k, "class.classes")
        ctor = c.get("constructor")
        if ctor is not None:
            cid = ctor.get("id")
            if cid != c["id"] + "/__init__":
                out.append(("id-shape", "class.constructor", {"owner": c["id"], "child": cid}))
            if cid not in ids["functions"]:
                out.append(("reference-resolves", "class.constructor->functions", {"owner": c["id"], "missing": cid}))
            owner_refs.setdefault(("functions", cid), []).append(c["id"])
    for f in ids["functions"].values():
        for p in f.get("parameters", []):
            ref(f["id"], "parameters", p, "function.parameters")
        for r in f.get("results", []):
            ref(f["id"], "results", r, "function.results")
    for e in ids["enums"].values():
        for i in e.get("instances", []):
            ref(e["id"], "enum_instances", i, "enum.instances")
    for lst in LISTS[1:]:
        for eid in ids[lst]:
            n = len(owner_refs.get((lst, eid), []))
            if n != 1:
                out.append(("single-owner", f"{lst}:{n}", {"id": eid, "owners": owner_refs.get((lst, eid), [])}))
    return out


# ------------------------------------------------------------------------------------------------------ inventory


def L(cid: int):  # noqa: N802
    """All inventory letters for case id cid: name -> (source, expected inventory relative to the module id)."""
    u = f"{cid:05d}"

    def fn(name, params, nres=1, **flags):
        d = {"functions": {name: flags}, "parameters": {f"{name}/{p}": {} for p in params}, "results": [f"{name}/result_{i + 1}" for i in range(nres)]}
        return d

    def merge(*ds):
        out: dict = {}
        for d in ds:
            for k, v in d.items():
                if isinstance(v, dict):
                    out.setdefault(k, {}).update(v)
                else:
                    out.setdefault(k, [])
                    out[k] = list(out[k]) + list(v)
        return out

    letters: dict[str, tuple[str, dict]] = {}
    letters["func"] = (f"def f{u}(a: int, b: str = 'x') -> int:\n    return a\n", merge(fn(f"f{u}", ["a", "b"]), {"parameters": {f"f{u}/b": {"default_value": '"x"', "is_optional": True}, f"f{u}/a": {"default_value": None, "is_optional": False}}}))
    letters["private_func"] = (f"def _f{u}(a: int) -> int:\n    return a\n", merge(fn(f"_f{u}", ["a"]), {"functions": {f"_f{u}": {"is_public": False}}}))
    letters["tuple_result"] = (f"def f{u}() -> tuple[int, str]:\n    return 1, 'a'\n", fn(f"f{u}", [], 2))
    letters["none_result"] = (f"def f{u}(a: int) -> None:\n    return None\n", merge(fn(f"f{u}", ["a"], 1), {"results": []}) if False else {"functions": {f"f{u}": {}}, "parameters": {f"f{u}/a": {}}, "results": [f"f{u}/result_1"]})
    letters["all_kinds"] = (f"def f{u}(a, /, b, *args, c, **kwargs) -> None:\n    ...\n", {"functions": {f"f{u}": {}}, "parameters": {f"f{u}/{p}": {} for p in ["a", "b", "args", "c", "kwargs"]}, "results": [f"f{u}/result_1"]})
    letters["defaults"] = (
        f"def f{u}(a=1, b=-1.5, c=True, d=None, e='s') -> None:\n    ...\n",
        {"functions": {f"f{u}": {}}, "results": [f"f{u}/result_1"], "parameters": {f"f{u}/a": {"default_value": 1}, f"f{u}/b": {"default_value": -1.5}, f"f{u}/c": {"default_value": True}, f"f{u}/d": {"default_value": None, "is_optional": True}, f"f{u}/e": {"default_value": '"s"'}}},
    )
    cls = (
        f"class C{u}:\n    ca: int = 1\n    ca = 2\n    cb, cc = 1, 2\n    _cp: str = 'p'\n\n"
        f"    def __init__(self, p: int, q: str = 'q') -> None:\n        self.ia: int = p\n        self.ia = 2\n        self._ip = q\n        local = 1\n\n"
        f"    def m(self, a: int) -> int:\n        return a\n\n    def _pm(self) -> None:\n        ...\n\n"
        f"    @staticmethod\n    def sm(a: int) -> int:\n        return a\n\n    @classmethod\n    def cm(cls) -> int:\n        return 1\n\n"
        f"    @property\n    def pr(self) -> int:\n        return 1\n"
    )
    c = f"C{u}"
    letters["class"] = (
        cls,
        merge(
            {"classes": {c: {"superclasses": [], "has_ctor": True, "methods": [f"{c}/m", f"{c}/_pm", f"{c}/sm", f"{c}/cm", f"{c}/pr"], "attributes": [f"{c}/ca", f"{c}/cb", f"{c}/cc", f"{c}/_cp", f"{c}/ia", f"{c}/_ip"], "classes": []}},
             "attributes": [f"{c}/ca", f"{c}/cb", f"{c}/cc", f"{c}/_cp", f"{c}/ia", f"{c}/_ip"]},
            fn(f"{c}/__init__", ["self", "p", "q"], 0), fn(f"{c}/m", ["self", "a"]), fn(f"{c}/_pm", ["self"]),
            fn(f"{c}/sm", ["a"], 1, is_static=True), fn(f"{c}/cm", ["cls"], 1, is_class_method=True), fn(f"{c}/pr", ["self"], 1, is_property=True),
            {"functions": {f"{c}/m": {"is_static": False, "is_class_method": False, "is_property": False}}},
        ),
    )
    tc = f"T{u}"
    t_static = ["sa", "sb", "sc", "sd", "se"]
    t_inst = ["ia", "ib", "ic", "idd", "ie", "iff", "ig"]
    letters["tuple_attrs"] = (
        f"class {tc}:\n    sa, sb = 1, 2\n    (sc, sd), se = (1, 2), 3\n\n"
        f"    def __init__(self, p: int) -> None:\n        self.ia, self.ib = p, p\n        (self.ic, self.idd), self.ie = (p, p), p\n        self.iff, *self.ig = p, p, p\n",
        merge(
            {"classes": {tc: {"has_ctor": True, "attributes": [f"{tc}/{a}" for a in t_static + t_inst]}}, "attributes": [f"{tc}/{a}" for a in t_static + t_inst],
             "attribute_flags": {**{f"{tc}/{a}": {"is_static": True} for a in t_static}, **{f"{tc}/{a}": {"is_static": False} for a in t_inst}}},
            fn(f"{tc}/__init__", ["self", "p"], 0),
        ),
    )
    letters["nested2"] = (
        f"class O{u}:\n    class M{u}:\n        class I{u}:\n            def d(self) -> int:\n                return 1\n\n        def e(self) -> int:\n            return 1\n",
        merge(
            {"classes": {f"O{u}": {"classes": [f"O{u}/M{u}"], "has_ctor": False}, f"O{u}/M{u}": {"classes": [f"O{u}/M{u}/I{u}"], "methods": [f"O{u}/M{u}/e"]}, f"O{u}/M{u}/I{u}": {"methods": [f"O{u}/M{u}/I{u}/d"]}}},
            fn(f"O{u}/M{u}/I{u}/d", ["self"]), fn(f"O{u}/M{u}/e", ["self"]),
        ),
    )
    letters["nested_attrs"] = (
        f"class NO{u}:\n    shared: int = 1\n    only_outer: int = 2\n\n    def __init__(self) -> None:\n        self.inst_shared = 1\n\n"
        f"    class NI{u}:\n        shared: float = 1.0\n        twice: float = 0.5\n\n        def __init__(self, t: float) -> None:\n            self.twice = t\n            self.inst_shared = t\n\n"
        f"        class ND{u}:\n            shared: str = 's'\n",
        {
            "classes": {f"NO{u}": {"attributes": [f"NO{u}/shared", f"NO{u}/only_outer", f"NO{u}/inst_shared"], "classes": [f"NO{u}/NI{u}"]},
                        f"NO{u}/NI{u}": {"attributes": [f"NO{u}/NI{u}/shared", f"NO{u}/NI{u}/twice", f"NO{u}/NI{u}/inst_shared"], "classes": [f"NO{u}/NI{u}/ND{u}"]},
                        f"NO{u}/NI{u}/ND{u}": {"attributes": [f"NO{u}/NI{u}/ND{u}/shared"]}},
            "attributes": [f"NO{u}/shared", f"NO{u}/only_outer", f"NO{u}/inst_shared", f"NO{u}/NI{u}/shared", f"NO{u}/NI{u}/twice", f"NO{u}/NI{u}/inst_shared", f"NO{u}/NI{u}/ND{u}/shared"],
            "functions": {f"NO{u}/__init__": {}, f"NO{u}/NI{u}/__init__": {}},
            "parameters": {f"NO{u}/__init__/self": {}, f"NO{u}/NI{u}/__init__/self": {}, f"NO{u}/NI{u}/__init__/t": {}},
            "results": [],
        },
    )
    letters["bases_local"] = (
        f"class A{u}:\n    pass\n\n\nclass B{u}:\n    pass\n\n\nclass D{u}(A{u}, B{u}):\n    pass\n",
        {"classes": {f"A{u}": {"superclasses": []}, f"B{u}": {"superclasses": []}, f"D{u}": {"superclasses": [f"@MODQ@.A{u}", f"@MODQ@.B{u}"]}}},
    )
    # the same SHORT class names in every module that holds this letter: only the qualified names tell them apart
    letters["bases_same_short_name"] = (
        f"class SameBase:\n    pass\n\n\nclass SameMid(SameBase):\n    pass\n\n\nclass DS{u}(SameMid):\n    pass\n\n\ndef mk{u}() -> SameBase:\n    made = SameMid()\n    other = SameBase()\n    return made or other\n",
        # (the names are used in expressions too: only then they enter the analyser's package-wide alias table)
        {"classes": {"SameBase": {"superclasses": []}, "SameMid": {"superclasses": ["@MODQ@.SameBase"]}, f"DS{u}": {"superclasses": ["@MODQ@.SameMid"]}}, "dontcare_prefixes": [f"mk{u}"]},
    )
    letters["bases_subscripted"] = (
        f"class GB{u}(Generic[T]):\n    pass\n\n\nclass DG{u}(GB{u}[int]):\n    pass\n\n\nclass DH{u}(SupBase, GB{u}[str]):\n    pass\n",
        {"classes": {f"GB{u}": {"superclasses": []}, f"DG{u}": {"superclasses": [f"@MODQ@.GB{u}"]}, f"DH{u}": {"superclasses": ["vpkg.support.SupBase", f"@MODQ@.GB{u}"]}}},
    )
    letters["bases_imported"] = (
        f"class D{u}(SupBase):\n    pass\n\n\nclass E{u}(AliasedBase, support.SupOther):\n    pass\n\n\nclass F{u}(collections.OrderedDict):\n    pass\n",
        {"classes": {f"D{u}": {"superclasses": ["vpkg.support.SupBase"]}, f"E{u}": {"superclasses": ["vpkg.support.SupBase2", "vpkg.support.SupOther"]}, f"F{u}": {"superclasses": ["collections.OrderedDict"]}}},
    )
    letters["generic_base"] = (
        f"class G{u}(Generic[T]):\n    def g(self, a: T) -> T:\n        return a\n",
        merge({"classes": {f"G{u}": {"methods": [f"G{u}/g"]}}}, fn(f"G{u}/g", ["self", "a"])),
    )
    letters["enum"] = (
        f"class E{u}(Enum):\n    A = 1\n    B = 2\n    _H = 3\n    c_d = 4\n\n\nclass Z{u}(IntEnum):\n    pass\n",
        {"enums": {f"E{u}": {"instances": [f"E{u}/A", f"E{u}/B", f"E{u}/_H", f"E{u}/c_d"]}, f"Z{u}": {"instances": []}}, "enum_instances": [f"E{u}/A", f"E{u}/B", f"E{u}/_H", f"E{u}/c_d"]},
    )
    letters["enum_with_method"] = (
        f"class EM{u}(Enum):\n    A = 1\n\n    def describe(self, a: int) -> int:\n        return a\n",
        # (whether the method is listed at all is left open; if it is, it needs an owner: the structural part judges that)
        {"enums": {f"EM{u}": {"instances": [f"EM{u}/A"]}}, "enum_instances": [f"EM{u}/A"], "dontcare_prefixes": [f"EM{u}/describe"]},
    )
    letters["class_name_ends_with_init"] = (
        f"class Foo{u}__init__:\n    x: int = 1\n\n    def __init__(self, p: int) -> None:\n        self.y = p\n\n    def m(self, a: int) -> int:\n        return a\n",
        merge({"classes": {f"Foo{u}__init__": {"has_ctor": True, "methods": [f"Foo{u}__init__/m"], "attributes": [f"Foo{u}__init__/x", f"Foo{u}__init__/y"]}}, "attributes": [f"Foo{u}__init__/x", f"Foo{u}__init__/y"]},
              fn(f"Foo{u}__init__/__init__", ["self", "p"], 0), fn(f"Foo{u}__init__/m", ["self", "a"])),
    )
    letters["ctor_assignment_shapes"] = (
        f"class CA{u}:\n    def __init__(self, p: int) -> None:\n        tmp, self.b = p, p\n        self.c: int = p\n        self.b.real2 = 3  # type: ignore[attr-defined]\n        self.d = self.e = p\n        local = p\n",
        merge({"classes": {f"CA{u}": {"has_ctor": True, "attributes": [f"CA{u}/{a}" for a in ("b", "c", "d", "e")]}}, "attributes": [f"CA{u}/{a}" for a in ("b", "c", "d", "e")],
               "attribute_flags": {f"CA{u}/{a}": {"is_static": False} for a in ("b", "c", "d", "e")}},
              fn(f"CA{u}/__init__", ["self", "p"], 0)),
    )
    letters["ctor_conditional_attrs"] = (
        f"class CC{u}:\n    def __init__(self, p: int) -> None:\n        self.first = p\n        if p:\n            self.inside = 1\n        else:\n            self.other = 2\n        for _i in range(p):\n            self.looped = _i\n        try:\n            self.tried = 1\n        finally:\n            self.last = p\n",
        merge({"classes": {f"CC{u}": {"has_ctor": True, "attributes": [f"CC{u}/{a}" for a in ("first", "inside", "other", "looped", "tried", "last")]}}, "attributes": [f"CC{u}/{a}" for a in ("first", "inside", "other", "looped", "tried", "last")]},
              fn(f"CC{u}/__init__", ["self", "p"], 0)),
    )
    letters["bases_aliased_import_same_last_name"] = (
        f"class DA{u}(SupBase):\n    pass\n\n\ndef mkda{u}() -> SupBase:\n    made = SupBase()\n    return made\n",
        {"classes": {f"DA{u}": {"superclasses": ["vpkg.support.SupBase"]}}, "dontcare_prefixes": [f"mkda{u}"]},
    )
    # an enum whose FIRST base is a data type or a mixin; Enum itself comes second
    letters["enum_mixin_first"] = (
        f"class LM{u}:\n    def label(self) -> str:\n        return ''\n\n\nclass SM{u}(str, Enum):\n    RED = 'r'\n    _INT = 'i'\n\n\nclass ML{u}(LM{u}, Enum):\n    ONE = 1\n",
        merge({"classes": {f"LM{u}": {"methods": [f"LM{u}/label"]}}, "enums": {f"SM{u}": {"instances": [f"SM{u}/RED", f"SM{u}/_INT"]}, f"ML{u}": {"instances": [f"ML{u}/ONE"]}},
               "enum_instances": [f"SM{u}/RED", f"SM{u}/_INT", f"ML{u}/ONE"]}, fn(f"LM{u}/label", ["self"])),
    )
    # a dataclass with __post_init__: the type checker adds a placeholder next to the generated constructor
    letters["dataclass_post_init"] = (
        f"@dataclass\nclass DP{u}:\n    a: int\n    b: int = field(init=False)\n\n    def __post_init__(self) -> None:\n        self.b = self.a\n",
        merge({"classes": {f"DP{u}": {"has_ctor": True, "methods": [f"DP{u}/__post_init__"], "attributes": [f"DP{u}/a", f"DP{u}/b"]}}, "attributes": [f"DP{u}/a", f"DP{u}/b"]},
              fn(f"DP{u}/__init__", ["self", "a"], 0), fn(f"DP{u}/__post_init__", ["self"], 1)),
    )
    letters["enum_kinds"] = (
        f"class FL{u}(Flag):\n    X = auto()\n\n\nclass SE{u}(StrEnum):\n    A = 'a'\n\n\nclass EB{u}(Enum):\n    pass\n\n\nclass ED{u}(EB{u}):\n    Y = 1\n",
        {"enums": {f"FL{u}": {"instances": [f"FL{u}/X"]}, f"SE{u}": {"instances": [f"SE{u}/A"]}, f"EB{u}": {"instances": []}, f"ED{u}": {"instances": [f"ED{u}/Y"]}},
         "enum_instances": [f"FL{u}/X", f"SE{u}/A", f"ED{u}/Y"]},
    )
    letters["enum_in_class"] = (
        f"class H{u}:\n    class Col{u}(Enum):\n        RED = 1\n\n    def h(self) -> int:\n        return 1\n",
        merge({"classes": {f"H{u}": {"methods": [f"H{u}/h"]}}, "enums": {f"H{u}/Col{u}": {"instances": [f"H{u}/Col{u}/RED"]}}, "enum_instances": [f"H{u}/Col{u}/RED"]}, fn(f"H{u}/h", ["self"])),
    )
    letters["property_setter"] = (
        f"class P{u}:\n    @property\n    def v(self) -> int:\n        return 1\n\n    @v.setter\n    def v(self, x: int) -> None:\n        ...\n",
        merge({"classes": {f"P{u}": {"methods": [f"P{u}/v"]}}}, fn(f"P{u}/v", ["self"], 1, is_property=True)),
    )
    letters["overload"] = (
        f"@overload\ndef o{u}(a: int) -> int: ...\n@overload\ndef o{u}(a: str) -> str: ...\ndef o{u}(a):\n    return a\n",
        {"functions": {f"o{u}": {}}, "parameters": {f"o{u}/a": {}}, "results": "?"},
    )
    letters["async_decorated"] = (
        f"async def a{u}(x: int) -> int:\n    return x\n\n\n@functools.lru_cache\ndef d{u}(x: int) -> int:\n    return x\n",
        merge(fn(f"a{u}", ["x"]), fn(f"d{u}", ["x"])),
    )
    letters["nested_function"] = (
        f"def n{u}(x: int) -> int:\n    def inner{u}(y: int) -> int:\n        return y\n    return inner{u}(x)\n",
        merge(fn(f"n{u}", ["x"]), {"dontcare_prefixes": [f"n{u}/inner{u}"]}),
    )
    letters["private_class"] = (
        f"class _Q{u}:\n    qa: int = 1\n\n    def qm(self) -> int:\n        return 1\n",
        merge({"classes": {f"_Q{u}": {"methods": [f"_Q{u}/qm"], "attributes": [f"_Q{u}/qa"], "is_public": False}}, "attributes": [f"_Q{u}/qa"]}, fn(f"_Q{u}/qm", ["self"])),
    )
    return letters


HEADER = "import collections\nimport functools\nfrom dataclasses import dataclass, field\nfrom enum import Enum, Flag, IntEnum, StrEnum, auto\nfrom typing import Generic, TypeVar, overload\n\nfrom vpkg import support\nfrom vpkg.support2 import SupBase as OtherSupBase\nfrom vpkg.support import SupBase\nfrom vpkg.support import SupBase2 as AliasedBase\n\nT = TypeVar('T')\n\n\n"
SUPPORT2 = "class SupBase:\n    def other(self) -> int:\n        return 1\n"
SUPPORT = "class SupBase:\n    pass\n\n\nclass SupBase2:\n    pass\n\n\nclass SupOther:\n    pass\n"
LETTER_NAMES = list(L(0))


def run(rep: Report, tier: str, seed: int) -> None:
    # ---- Part I units: one module per unit; a unit is a tuple of (letter, cid)
    units: list[tuple[int, tuple[str, ...]]] = []
    uid = itertools.count(1)
    for a in LETTER_NAMES:
        units.append((next(uid), (a,)))
    pair_letters = LETTER_NAMES if tier == "thorough" else ["func", "class", "tuple_attrs", "nested_attrs", "bases_local", "bases_same_short_name", "bases_imported", "enum", "enum_in_class", "property_setter", "private_class", "nested2"]
    for a, b in itertools.permutations(pair_letters, 2):
        units.append((next(uid), (a, b)))
    rep.rule = (
        f"{len(LETTER_NAMES)} declaration letters with explicit expected inventory (ids, flags, defaults, superclasses), each alone and all ordered pairs of "
        f"{len(pair_letters)} letters in one module; plus the structural invariants (schema version, sorted/unique ids, id shape, reference resolution, single owner) on the API JSON of those runs "
        "and of every C03 tree run; distinct = distinct unit label"
    )

    def render(unit):
        mid, letters = unit
        parts, exps = [], []
        for k, name in enumerate(letters):
            src, exp = L(mid * 10 + k)[name]
            parts.append(src)
            exps.append((name, exp))
        return f"i{mid:05d}", HEADER + "\n\n".join(parts), exps

    def build(us):
        files = {f"{PKG}/__init__.py": "", f"{PKG}/support.py": SUPPORT, f"{PKG}/support2.py": SUPPORT2}
        for u in us:
            mod, text, _ = render(u)
            files[f"{PKG}/{mod}.py"] = text
        return files, PKG

    def check_structure(api_doc: dict, label: str, files, opts) -> None:
        vs = structure_violations(api_doc)
        if not vs:
            rep.ok("structure")
        for clause, feat, detail in vs:
            # attribute to the letter that owns the offending id when recognisable
            rep.violation(clause, f"{clause}:{feat}|{_owner_letter(detail)}", {"run": label, **detail}, files=files, src_rel=PKG, opts=opts)

    def _owner_letter(detail: dict) -> str:
        s = json.dumps(detail)
        for marker, name in (("/Col", "enum_in_class"), ("/inner", "nested_function"), ("/v", "property_setter"), ("/EM", "enum_with_method")):
            if marker in s:
                return name
        return "?"

    def on_group(us, opts, obs: Obs, files) -> None:
        if obs.outcome != "completed":
            for u in us:
                rep.case("+".join(u[1]))
                rep.violation("run-completes", f"run:{obs.outcome}:{obs.crash_sig()}|{'+'.join(u[1])}", {"unit": u[1], "exc": obs.exc_type + ": " + obs.exc_msg}, files=build([u])[0], src_rel=PKG, opts=opts, obs=obs)
            return
        api_doc = obs.api()
        if api_doc is None:
            rep.violation("json-parses", "missing", {}, files=files, src_rel=PKG, opts=opts)
            return
        check_structure(api_doc, "inventory", files, opts)
        byid = {lst: {e["id"]: e for e in api_doc.get(lst, [])} for lst in LISTS}
        for u in us:
            mod, text, exps = render(u)
            label = "+".join(u[1])
            rep.case(label, True, sample={"unit": label, "python": text[len(HEADER) :][:300]} if u[0] % 97 == 0 else None)
            mid = f"{PKG}/{mod}"
            modq = mid.replace("/", ".")
            mini = {f"{PKG}/__init__.py": "", f"{PKG}/support.py": SUPPORT, f"{PKG}/support2.py": SUPPORT2, f"{PKG}/{mod}.py": text}

            def viol(clause, feat, detail, label=label, mini=mini) -> None:
                rep.violation(clause, f"{clause}:{feat}|{label}", {"unit": label, **detail}, files=mini, src_rel=PKG, opts=opts)

            if mid not in byid["modules"]:
                viol("module-present", "missing", {"id": mid})
                continue
            expected: dict[str, set[str]] = {lst: set() for lst in LISTS[1:]}
            dontcare: list[str] = []
            unknown_results: list[str] = []
            for name, exp in exps:
                dontcare += [f"{mid}/{p}" for p in exp.get("dontcare_prefixes", [])]
                for lst in ("classes", "functions", "enums", "parameters"):
                    for rel, flags in exp.get(lst, {}).items():
                        eid = f"{mid}/{rel}"
                        expected[lst].add(eid)
                        e = byid[lst].get(eid)
                        if e is None:
                            continue
                        for fk, fv in flags.items():
                            if fk == "has_ctor":
                                if (e.get("constructor") is not None) != fv:
                                    viol("flag", f"{name}:constructor", {"id": eid, "expected": fv})
                                else:
                                    rep.ok("flag")
                            elif fk in ("methods", "attributes", "classes", "instances"):
                                want = [f"{mid}/{x}" for x in fv]
                                if e.get(fk) != want:
                                    viol("owner-lists", f"{name}:{fk}", {"id": eid, "expected": want, "observed": e.get(fk)})
                                else:
                                    rep.ok("owner-lists")
                            elif fk == "superclasses":
                                want = [x.replace("@MODQ@", modq) for x in fv]
                                if e.get(fk) != want:
                                    viol("superclasses", name, {"id": eid, "expected": want, "observed": e.get(fk)})
                                else:
                                    rep.ok("superclasses")
                            else:
                                if e.get(fk) != fv or type(e.get(fk)) is not type(fv):
                                    viol("flag", f"{name}:{fk}", {"id": eid, "expected": fv, "observed": e.get(fk)})
                                else:
                                    rep.ok("flag")
                for rel, flags in exp.get("attribute_flags", {}).items():
                    e = byid["attributes"].get(f"{mid}/{rel}")
                    if e is None:
                        continue  # reported by 'complete'
                    for fk, fv in flags.items():
                        if e.get(fk) != fv or type(e.get(fk)) is not type(fv):
                            viol("flag", f"{name}:attr:{fk}", {"id": f"{mid}/{rel}", "expected": fv, "observed": e.get(fk)})
                        else:
                            rep.ok("flag")
                if exp.get("results") == "?":
                    unknown_results += [f"{mid}/{rel}/" for rel in exp.get("functions", {})]
                else:
                    expected["results"] |= {f"{mid}/{r}" for r in exp.get("results", [])}
                expected["attributes"] |= {f"{mid}/{a}" for a in exp.get("attributes", [])}
                expected["enum_instances"] |= {f"{mid}/{a}" for a in exp.get("enum_instances", [])}
            for lst in LISTS[1:]:
                have = {eid for eid in byid[lst] if eid.startswith(mid + "/") and not any(eid.startswith(p) for p in dontcare)}
                if lst == "results":
                    have = {h for h in have if not any(h.startswith(p) for p in unknown_results)}
                for missing in sorted(expected[lst] - have):
                    owner = next((n for n, exp in exps if any(missing.endswith(str(r)) for r in _all_rel(exp))), "?")
                    viol("complete", f"{lst}:missing:{owner}", {"id": missing})
                for extra in sorted(have - expected[lst]):
                    viol("complete", f"{lst}:extra", {"id": extra})
                if expected[lst] == have:
                    rep.ok(f"complete:{lst}")

    def _all_rel(exp: dict) -> list[str]:
        out: list[str] = []
        for k, v in exp.items():
            if k == "dontcare_prefixes":
                continue
            out += list(v) if not isinstance(v, str) else []
        return out

    stats: dict[str, int] = {}
    groups = [(units[i : i + 150], Opts()) for i in range(0, len(units), 150)]
    run_packed(groups, build, on_group, stats)

    # ---- Part S on the C03 trees
    specs = enumerate_trees("quick")
    tgroups = [(specs[i : i + 150], Opts()) for i in range(0, len(specs), 150)]

    def on_tree_group(ss, opts, obs: Obs, files) -> None:
        for s in ss:
            rep.case("tree:" + s.label)
        if obs.outcome != "completed":
            return  # C01/C03 territory
        api_doc = obs.api()
        if api_doc is not None:
            check_structure(api_doc, "trees", None, opts)
            # completeness of the module list and of top-level declarations against the tree ground truth
            byid = {lst: {e["id"] for e in api_doc.get(lst, [])} for lst in LISTS}
            for s in ss:
                for mod in s.modules:
                    if mod.replace(".", "/") not in byid["modules"]:
                        rep.violation("complete", f"modules:missing|tree:{s.label.split('|')[0]}", {"tree": s.label, "module": mod}, files=pack_trees([s])[0], src_rel=PKG, opts=opts)
                for g in s.decls:
                    lst = {"function": "functions", "method": "functions", "static_method": "functions", "class_method": "functions", "property": "functions", "class": "classes", "class_attr": "attributes", "inst_attr": "attributes", "enum": "enums", "enum_member": "enum_instances"}[g.kind]
                    if g.api_id in byid[lst]:
                        rep.ok("complete:tree")
                    else:
                        rep.violation("complete", f"{lst}:missing:{g.letter}:{g.kind}|tree:{s.label.split('|')[0]}", {"tree": s.label, "id": g.api_id}, files=pack_trees([s])[0], src_rel=PKG, opts=opts)

    run_packed(tgroups, lambda ss: pack_trees(ss), on_tree_group, stats)
    rep.extra.update(stats)
    rep.extra["inventory_units"] = len(units)
    rep.extra["trees"] = len(specs)
    rep.assumptions = [
        "expected ids follow '<owner id>/<name>' with module id = dotted module path with '/' (the statement's id form)",
        "functions nested in functions are outside the inventory claim (don't-care), results of @overload implementations without annotation likewise",
    ]
