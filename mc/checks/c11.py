"""C11 - every referenced class is declared or imported, and every import resolves (E1 over multi-module trees)."""

from __future__ import annotations

import itertools

from ..driver import Obs, Opts
from ..explore import run_packed
from ..pkg import PKG, index_stubs
from ..report import Report
from ..sds_parser import SdsDecl, SdsModule, SdsType

BUILTIN_TARGETS = {"Int", "String", "Boolean", "Float", "Nothing", "Any", "List", "Map", "Set", "Tuple"}

POSITIONS = ["param", "result", "class_attr", "inst_attr", "superclass", "list_arg", "union_none", "union_int", "callable_param", "gen_arg", "dict_value", "ctor_param", "inherited_param", "reexported_param"]


def use(pos: str, ref: str, T: str) -> str:  # noqa: N803
    """Source of declarations in the user module that mention type `ref` in position `pos`."""
    if pos == "param":
        return f"def f{T}(p: {ref}) -> None:\n    ...\n"
    if pos == "result":
        return f"def f{T}() -> {ref}:\n    ...\n"
    if pos == "class_attr":
        return f"class K{T}:\n    a: {ref}\n"
    if pos == "inst_attr":
        return f"class K{T}:\n    def __init__(self, q: {ref}) -> None:\n        self.x: {ref} = q\n"
    if pos == "ctor_param":
        return f"class K{T}:\n    def __init__(self, q: {ref}) -> None:\n        ...\n"
    if pos == "superclass":
        return f"class K{T}({ref}):\n    def own{T}(self) -> int:\n        return 1\n"
    if pos == "list_arg":
        return f"def f{T}(p: list[{ref}]) -> None:\n    ...\n"
    if pos == "union_none":
        return f"def f{T}(p: {ref} | None = None) -> None:\n    ...\n"
    if pos == "union_int":
        return f"def f{T}(p: Union[{ref}, int]) -> None:\n    ...\n"
    if pos == "callable_param":
        return f"def f{T}(p: Callable[[{ref}], int]) -> None:\n    ...\n"
    if pos == "gen_arg":
        return f"def f{T}(p: Gen{T}[{ref}]) -> None:\n    ...\n"
    if pos == "dict_value":
        return f"def f{T}() -> dict[str, {ref}]:\n    ...\n"
    if pos == "reexported_param":
        # the class that mentions the type is itself re-exported by its package (unit_files adds the import to __init__):
        # its stub is written as a re-export file of the package, which needs the import as well
        return f"class R{T}:\n    def rm{T}(self, p: {ref}) -> None:\n        ...\n"
    if pos == "inherited_param":
        # a private class whose method mentions the type; shown in a public subclass here and (unit_files) in another module
        return f"class _IB{T}:\n    def im{T}(self, p: {ref}) -> None:\n        ...\n\n\nclass K{T}(_IB{T}):\n    pass\n"
    raise AssertionError(pos)


CLS = "class {n}:\n    def m{T}(self) -> int:\n        return 1\n"


def targets(T: str) -> dict[str, tuple[dict[str, str], str, str, str]]:  # noqa: N803
    """name -> (extra files relative to unit root u<T>/, import line(s) in the user module, reference expr, user module rel path)."""
    B = f"B{T}"  # noqa: N806
    c = CLS.format(n=B, T=T)
    t: dict[str, tuple[dict[str, str], str, str, str]] = {}
    t["same_module"] = ({}, c, B, f"a{T}.py")
    # the class is defined in the user module itself, and the package re-exports it (its stub moves to the package)
    t["same_module_reexported_by_pkg"] = ({"__init__.py": f"from .a{T} import {B}\n"}, c, B, f"a{T}.py")
    t["same_module_nested"] = ({}, f"class O{T}:\n    class I{T}:\n        def m{T}(self) -> int:\n            return 1\n", f"O{T}.I{T}", f"a{T}.py")
    t["sibling_abs"] = ({f"b{T}.py": c}, f"from {PKG}.u{T}.b{T} import {B}\n", B, f"a{T}.py")
    t["sibling_rel"] = ({f"b{T}.py": c}, f"from .b{T} import {B}\n", B, f"a{T}.py")
    # the user module's name (a<T>) is a proper prefix of the target module's name (a<T>x)
    t["sibling_name_prefix"] = ({f"a{T}x.py": c}, f"from .a{T}x import {B}\n", B, f"a{T}.py")
    t["sibling_module_attr"] = ({f"b{T}.py": c}, f"from . import b{T}\n", f"b{T}.{B}", f"a{T}.py")
    t["sibling_pkg"] = ({f"sp{T}/__init__.py": "", f"sp{T}/b{T}.py": c}, f"from {PKG}.u{T}.sp{T}.b{T} import {B}\n", B, f"a{T}.py")
    t["parent_pkg"] = ({f"b{T}.py": c, f"ap{T}/__init__.py": ""}, f"from {PKG}.u{T}.b{T} import {B}\n", B, f"ap{T}/a{T}.py")
    t["reexp_name_via_pkg"] = ({f"_b{T}.py": c, "__init__.py": f"from ._b{T} import {B}\n"}, f"from {PKG}.u{T} import {B}\n", B, f"a{T}.py")
    t["reexp_name_via_mod"] = ({f"_b{T}.py": c, "__init__.py": f"from ._b{T} import {B}\n"}, f"from ._b{T} import {B}\n", B, f"a{T}.py")
    t["reexp_alias_via_pkg"] = ({f"_b{T}.py": c, "__init__.py": f"from ._b{T} import {B} as BA{T}\n"}, f"from {PKG}.u{T} import BA{T}\n", f"BA{T}", f"a{T}.py")
    t["reexp_alias_via_mod"] = ({f"_b{T}.py": c, "__init__.py": f"from ._b{T} import {B} as BA{T}\n"}, f"from ._b{T} import {B}\n", B, f"a{T}.py")
    t["reexp_star"] = ({f"_b{T}.py": c, "__init__.py": f"from ._b{T} import *\n"}, f"from ._b{T} import {B}\n", B, f"a{T}.py")
    t["reexp_public_module_shorter"] = ({f"sp{T}/__init__.py": "", f"sp{T}/b{T}.py": c, "__init__.py": f"from .sp{T}.b{T} import {B}\n"}, f"from {PKG}.u{T}.sp{T}.b{T} import {B}\n", B, f"a{T}.py")
    t["reexp_by_other_pkg_longer_name"] = ({f"io{T}/__init__.py": "", f"io{T}/_b{T}.py": c, f"public_interface_with_long_name{T}/__init__.py": f"from {PKG}.u{T}.io{T}._b{T} import {B}\n", f"public_interface_with_long_name{T}/x{T}.py": f"def xf{T}() -> int:\n    return 1\n"}, f"from {PKG}.u{T}.io{T}._b{T} import {B}\n", B, f"a{T}.py")
    t["reexp_by_other_pkg_alias"] = ({f"io{T}/__init__.py": "", f"io{T}/_b{T}.py": c, f"facade{T}/__init__.py": f"from {PKG}.u{T}.io{T}._b{T} import {B}\n", f"facade{T}/x{T}.py": f"def xf{T}() -> int:\n    return 1\n"}, f"from {PKG}.u{T}.facade{T} import {B}\n", B, f"a{T}.py")
    # the same with the relative spelling of the import in the re-exporting package ('from ..io import')
    t["reexp_by_other_pkg_two_dots"] = ({f"io{T}/__init__.py": "", f"io{T}/_b{T}.py": c, f"facade{T}/__init__.py": f"from ..io{T}._b{T} import {B}\n", f"facade{T}/x{T}.py": f"def xf{T}() -> int:\n    return 1\n"}, f"from {PKG}.u{T}.facade{T} import {B}\n", B, f"a{T}.py")
    # a sibling package of the SAME depth as the defining module re-exports the class: the class is not moved there
    t["reexp_by_equally_deep_pkg"] = ({f"b{T}.py": c, f"compat{T}/__init__.py": f"from {PKG}.u{T}.b{T} import {B}\n", f"compat{T}/x{T}.py": f"def xf{T}() -> int:\n    return 1\n"}, f"from .b{T} import {B}\n", B, f"a{T}.py")
    chain = {f"cp{T}/__init__.py": f"from ._b{T} import {B}\n", f"cp{T}/_b{T}.py": c, "__init__.py": f"from .cp{T} import {B}\n"}
    t["reexp_chain_via_pkg"] = (chain, f"from {PKG}.u{T} import {B}\n", B, f"a{T}.py")
    t["reexp_chain_via_sub"] = (chain, f"from {PKG}.u{T}.cp{T} import {B}\n", B, f"a{T}.py")
    # a package path with a PRIVATE segment that is not the first one (naming conversion treats the underscore specially)
    t["reexp_by_private_subpkg"] = ({f"_core{T}/__init__.py": f"from .engine{T} import {B}\n", f"_core{T}/engine{T}.py": c}, f"from {PKG}.u{T}._core{T} import {B}\n", B, f"a{T}.py")
    t["lib_private_segment"] = ({}, "from concurrent.futures._base import Executor\n", "Executor", f"a{T}.py")
    # a class whose name the naming conversion changes (declaration, import and use must agree)
    t["sibling_snake_case_name"] = ({f"b{T}.py": CLS.format(n=f"snake_b{T}", T=T)}, f"from .b{T} import snake_b{T}\n", f"snake_b{T}", f"a{T}.py")
    # the package re-exports ANOTHER class whose name ends with the referenced class's name (DataB<T> vs B<T>)
    t["suffix_of_reexported_name"] = ({f"b{T}.py": c, f"_core{T}.py": CLS.format(n=f"Data{B}", T=T + "q"), "__init__.py": f"from ._core{T} import Data{B}\n"}, f"from .b{T} import {B}\n", B, f"a{T}.py")
    # the user module imports the class under an alias and declares a class of its own under the ORIGINAL name (dateutil.rrule.weekday)
    t["aliased_import_shadowed_by_local_class"] = ({f"b{T}.py": c}, f"from .b{T} import {B} as Base{T}\n\n\nclass {B}(Base{T}):\n    def own_m{T}(self) -> int:\n        return 2\n\n\n", f"Base{T}", f"a{T}.py")
    t["private_not_reexported"] = ({f"_b{T}.py": c}, f"from ._b{T} import {B}\n", B, f"a{T}.py")
    t["private_class"] = ({f"b{T}.py": CLS.format(n="_" + B, T=T)}, f"from .b{T} import _{B}\n", f"_{B}", f"a{T}.py")
    t["nested_other_module"] = ({f"b{T}.py": f"class O{T}:\n    class I{T}:\n        def m{T}(self) -> int:\n            return 1\n"}, f"from .b{T} import O{T}\n", f"O{T}.I{T}", f"a{T}.py")
    t["enum_other_module"] = ({f"b{T}.py": f"from enum import Enum\n\n\nclass {B}(Enum):\n    X{T} = 1\n"}, f"from .b{T} import {B}\n", B, f"a{T}.py")
    # an enum that its package re-exports (from a public and from a private module); enums are never moved to the package
    enum_src = f"from enum import Enum\n\n\nclass {B}(Enum):\n    X{T} = 1\n"
    t["enum_reexported_public_module"] = ({f"b{T}.py": enum_src, "__init__.py": f"from .b{T} import {B}\n"}, f"from {PKG}.u{T} import {B}\n", B, f"a{T}.py")
    t["enum_reexported_private_module"] = ({f"_b{T}.py": enum_src, "__init__.py": f"from ._b{T} import {B}\n"}, f"from {PKG}.u{T} import {B}\n", B, f"a{T}.py")
    t["dup_short_name"] = ({f"d1{T}.py": CLS.format(n="Dup", T=T), f"d2{T}.py": CLS.format(n="Dup", T=T + "x")}, f"from .d2{T} import Dup\n", "Dup", f"a{T}.py")
    t["lib_collections"] = ({}, "import collections\n", "collections.OrderedDict", f"a{T}.py")
    t["lib_pathlib"] = ({}, "from pathlib import Path\n", "Path", f"a{T}.py")
    t["lib_decimal_alias"] = ({}, "from decimal import Decimal as Dec\n", "Dec", f"a{T}.py")
    t["lib_unresolvable"] = ({}, f"from thirdparty{T} import Thing{T}  # type: ignore[import-not-found]\n", f"Thing{T}", f"a{T}.py")
    # the same library class, reached through the module ('import thirdparty as tp; tp.Thing')
    t["lib_unresolvable_via_module"] = ({}, f"import thirdparty{T} as tp{T}  # type: ignore[import-not-found]\n", f"tp{T}.Thing{T}", f"a{T}.py")
    for b in ("bytes", "complex", "object", "frozenset", "Exception", "range"):
        t[f"builtin_{b}"] = ({}, "", b, f"a{T}.py")
    return t


TARGET_NAMES = list(targets("0"))
HEADER = "from collections.abc import Callable\nfrom typing import Generic, TypeVar, Union\n\n"


def unit_files(T: str, tname: str, positions: list[str], second: tuple[str, str] | None = None) -> dict[str, str]:  # noqa: N803
    extra, imp, ref, user = targets(T)[tname]
    root = f"{PKG}/u{T}"
    files = {f"{root}/__init__.py": ""}
    for rel, text in extra.items():
        files[f"{root}/{rel}"] = text
    body = HEADER + (imp if not imp.startswith("class") else "")
    gen = f"_G{T} = TypeVar('_G{T}')\n\n\nclass Gen{T}(Generic[_G{T}]):\n    pass\n\n\n" if "gen_arg" in positions else ""
    body += "\n" + gen + (imp + "\n\n" if imp.startswith("class") else "")
    parts = []
    for k, pos in enumerate(positions):
        parts.append(use(pos, ref, f"{T}{chr(97 + k)}"))
        if pos == "reexported_param" and user.count("/") == 0:
            Tk = f"{T}{chr(97 + k)}"  # noqa: N806
            files[f"{root}/__init__.py"] = files.get(f"{root}/__init__.py", "") + f"from .{user[:-3]} import R{Tk}\n"
        if pos == "inherited_param":
            Tk = f"{T}{chr(97 + k)}"  # noqa: N806
            udir, umod = ("/" + user).rsplit("/", 1)
            files[f"{root}{udir}/h{Tk}.py"] = f"from .{umod[:-3]} import _IB{Tk}\n\n\nclass H{Tk}(_IB{Tk}):\n    pass\n"
    if second:
        t2, pos2 = second
        T2 = T + "z"  # noqa: N806
        extra2, imp2, ref2, _ = targets(T2)[t2]
        for rel, text in extra2.items():
            if rel == "__init__.py":
                files[f"{root}/__init__.py"] = files.get(f"{root}/__init__.py", "") + text.replace(f"u{T2}", f"u{T}")
            else:
                files[f"{root}/{rel}"] = text.replace(f"u{T2}", f"u{T}")
        body = body.replace(HEADER, HEADER + (imp2.replace(f"u{T2}", f"u{T}") if not imp2.startswith("class") else ""), 1)
        if imp2.startswith("class"):
            parts.append(imp2)
        parts.append(use(pos2, ref2, f"{T2}"))
    files[f"{root}/{user}"] = body + "\n\n".join(parts)
    return files


# ----------------------------------------------------------------------------------------------------- the oracle


def type_names(ty: SdsType | None):
    if ty is None:
        return
    if ty.kind == "named":
        yield ty.name
        for a in ty.args:
            yield from type_names(a)
    elif ty.kind == "union":
        for a in ty.args:
            yield from type_names(a)
    elif ty.kind == "callable":
        for p in ty.params:
            yield from type_names(p.type)
        for r in ty.results:
            yield from type_names(r.type)


def closure_violations(mod: SdsModule, declared_in: dict[str, set[str]]) -> list[tuple[str, str, dict]]:
    out: list[tuple[str, str, dict]] = []
    local: set[str] = set()

    def collect(d: SdsDecl, prefix: str = "") -> None:
        if d.kind in ("class", "enum"):
            local.add(d.name)
            local.add(prefix + d.name)
            for m in d.members:
                collect(m, prefix + d.name + ".")

    for d in mod.decls:
        collect(d)
    imported = {(i.alias or i.name) for i in mod.imports}

    def check_type(ty: SdsType | None, scope: set[str], where: str) -> None:
        for n in type_names(ty):
            head = n.split(".")[0]
            if n in BUILTIN_TARGETS or n in scope or n in local or head in local or n in imported or head in imported:
                continue
            out.append(("name-declared-or-imported", where, {"name": n, "file": mod.filename}))

    def walk(d: SdsDecl, scope: set[str]) -> None:
        scope = scope | {tp.name for tp in d.type_params}
        for tp in d.type_params:
            check_type(tp.bound, scope, "type-parameter-bound")
        for p in d.params or []:
            check_type(p.type, scope, "parameter" if d.kind == "fun" else "constructor-parameter")
        for r in d.results or []:
            check_type(r.type, scope, "result")
        if d.kind == "attr":
            check_type(d.type, scope, "attribute")
        for par in d.parents:
            check_type(par, scope, "superclass")
        for m in d.members:
            walk(m, scope)

    for d in mod.decls:
        walk(d, set())
    for i in mod.imports:
        if i.name not in declared_in.get(i.package, set()):
            out.append(("import-resolves", "no-such-declaration" if i.package in declared_in else "no-such-package", {"import": f"from {i.package} import {i.name}", "file": mod.filename}))
        if (i.alias or i.name) in {d.name for d in mod.decls}:
            out.append(("no-import-of-own-declaration", "dup", {"import": f"from {i.package} import {i.name}", "file": mod.filename}))
    return out


def run(rep: Report, tier: str, seed: int) -> None:
    units: list[tuple[str, str, dict[str, str]]] = []  # (label, feature, files)
    tid = itertools.count(1)
    for tname in TARGET_NAMES:
        for pos in POSITIONS:
            T = f"{next(tid):04d}"  # noqa: N806
            units.append((f"{tname}:{pos}", f"{tname}:{pos}|-", unit_files(T, tname, [pos])))
    pair_targets = TARGET_NAMES if tier == "thorough" else ["sibling_rel", "reexp_name_via_pkg", "reexp_alias_via_pkg", "lib_collections", "dup_short_name", "same_module", "private_not_reexported"]
    for t1, t2 in itertools.permutations(pair_targets, 2):
        for p1, p2 in (("param", "result"), ("superclass", "param")):
            if ("superclass" in (p1, p2)) and (t1.startswith("builtin") or t1.startswith("lib_unres")):
                continue
            if targets("0")[t1][3].count("/") and targets("0")[t2][1].startswith("from ."):
                continue  # the second reference's relative import would not resolve from a user module inside a sub-package
            T = f"{next(tid):04d}"  # noqa: N806
            units.append((f"{t1}:{p1}+{t2}:{p2}", f"{t1}:{p1}|{t2}:{p2}", unit_files(T, t1, [p1], (t2, p2))))
    rep.rule = (
        f"{len(TARGET_NAMES)} placements of the referenced class (same module, nested, sibling module/package, parent package, private module re-exported by name/alias/star and used via package or module path, "
        "not re-exported, private class, nested in another module, enum, same short name in two modules, 4 other-library forms, 6 unmapped builtins) x 14 reference positions (the 14th: parameter of a method of a class that its package re-exports; the 13th: parameter of a method of a private class that public subclasses in two modules show), one reference per tree; "
        f"ordered pairs of {len(pair_targets)} placements in one user module; both naming settings; oracle over the complete stub set of each run; distinct = distinct (unit label, naming)"
    )

    def build(us):
        files = {f"{PKG}/__init__.py": ""}
        for _, _, fs in us:
            files.update(fs)
        return files, PKG

    def on_group(us, opts: Opts, obs: Obs, files) -> None:
        nc = "nc" if opts.convert else "py"
        if obs.outcome != "completed":
            for label, feat, fs in us:
                rep.case(f"{label}|{nc}")
                if obs.outcome == "outside_domain":
                    rep.outside_domain += 1
                elif len(us) == 1:
                    # (groups are bisected by run_packed: a crash is attributed to the single unit that causes it)
                    rep.violation("run-completes", f"run:{obs.outcome}:{obs.crash_sig()}|{feat.split('|')[0]}|{nc}", {"unit": label, "exc": obs.exc_type + ": " + obs.exc_msg, "tb": obs.exc_tb[-500:]}, files={f"{PKG}/__init__.py": "", **fs}, src_rel=PKG, opts=opts, obs=obs)
            return
        idx = index_stubs(obs)
        declared_in: dict[str, set[str]] = {}
        for m in idx.modules.values():
            declared_in.setdefault(m.package, set()).update(d.name for d in m.decls)
        by_unit: dict[str, tuple[str, str, dict]] = {}
        for label, feat, fs in us:
            rep.case(f"{label}|{nc}", True, sample={"unit": label, "files": fs} if hash(label) % 173 == 0 else None)
            tag = next(iter(fs)).split("/")[1]  # u<T>
            by_unit[tag] = (label, feat, fs)
        # a referenced class/enum of the package keeps its real declaration: a stub 'class B' without members where the
        # Python source has an enum or a class with a method is a placeholder that replaced (or shadows) the real stub
        import re as _re2

        for path, m in idx.modules.items():
            for d in m.decls:
                mt = _re2.match(r"^_?B(\d{4})[a-z]?z?$", d.py_name or d.name)
                if not mt or f"u{mt.group(1)}" not in by_unit:
                    continue
                label, feat, fs = by_unit[f"u{mt.group(1)}"]
                if (d.py_name or d.name).endswith("z") and "|" in feat and feat.split("|")[1] != "-":
                    feat = feat.split("|")[1]  # the second reference of a pair unit carries the marker 'z'
                src = "\n".join(fs.values())
                is_enum = _re2.search(rf"class {_re2.escape(d.py_name or d.name)}\(Enum\)", src) is not None
                real = (d.kind == "enum" and d.members) if is_enum else (d.kind == "class" and any(x.kind == "fun" for x in d.members))
                if real:
                    rep.ok("referenced-declaration-is-real")
                else:
                    mini = {f"{PKG}/__init__.py": "", **fs}
                    rep.violation("referenced-declaration-is-real", f"placeholder:{'enum' if is_enum else 'class'}|{feat.split('|')[0]}|{nc}", {"unit": label, "file": path, "stub": obs.stubs()[path][:400]}, files=mini, src_rel=PKG, opts=opts)
        for path, m in idx.modules.items():
            vs = closure_violations(m, declared_in)
            if not vs:
                rep.ok("closure")
                continue
            owner = next((by_unit[seg] for seg in path.split("/") if seg in by_unit), None)
            if owner is None:
                # placeholder stubs of other libraries or top-level files: attribute through the text
                owner = next((v for k, v in by_unit.items() if k[1:] in m.filename or any(k[1:] in d.name for d in m.decls)), ("?", "?", {}))
            label, feat, fs = owner
            mini = {f"{PKG}/__init__.py": ""}
            mini.update(fs)
            first, second = feat.split("|") if "|" in feat else (feat, "-")
            for clause, f2, detail in vs:
                # in pair units the names of the second reference carry the marker 'z' after the unit id
                import re as _re

                blob = str(detail.get("name", "")) + " " + str(detail.get("import", ""))
                which = first
                if second != "-":
                    unit_tag = next(iter(fs)).split("/")[1][1:]
                    ref2 = targets(unit_tag + "z")[second.split(":")[0]][2]
                    names2 = {ref2, ref2.split(".")[-1], ref2.lstrip("_")}
                    if _re.search(r"\d{4}z", blob) or any(_re.search(r"(?<![A-Za-z0-9_])" + _re.escape(n) + r"(?![A-Za-z0-9_])", blob) for n in names2):
                        which = second
                ctx = "alone" if second == "-" else "paired"
                rep.violation(clause, f"{clause}:{f2}|{which}|{ctx}|{nc}", {"unit": label, "stub": obs.stubs()[path][:600], **detail}, files=mini, src_rel=PKG, opts=opts)

    stats: dict[str, int] = {}
    groups = []
    for convert in (False, True):
        for i in range(0, len(units), 60):
            groups.append((units[i : i + 60], Opts(convert=convert)))
    run_packed(groups, build, on_group, stats)
    rep.extra.update(stats)
    rep.extra["units"] = len(units)
    rep.assumptions = [
        "built-in mapping targets are Int, String, Boolean, Float, Nothing, Any, List, Map, Set, Tuple; type parameters in scope count as declared",
        "an import 'from P import N' resolves iff some generated stub file declares package P (as written) and declares N at top level (as written)",
    ]
