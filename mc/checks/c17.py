"""C17 - members of private ancestors surface once in public subclasses (E1 over class hierarchies)."""

from __future__ import annotations

import itertools
from collections import Counter
from dataclasses import dataclass

from ..driver import Obs, Opts
from ..explore import run_packed
from ..pkg import PKG, index_stubs
from ..report import Report

TYPES = ["int", "str", "bool", "float", "bytes"]
IMG = {"int": "Int", "str": "String", "bool": "Boolean", "float": "Float", "bytes": "bytes"}
METHOD_SETS = [(), ("m1",), ("m2",), ("m1", "m2")]


@dataclass(frozen=True)
class Cls:
    private: bool
    bases: tuple[int, ...]
    methods: tuple[str, ...]
    extras: tuple[str, ...] = ()  # private_method property static nested


def c3(h: tuple[Cls, ...], i: int) -> list[int] | None:
    """C3 linearisation of class i (None if no consistent MRO exists)."""
    seqs = []
    for b in h[i].bases:
        l = c3(h, b)
        if l is None:
            return None
        seqs.append(l)
    seqs.append(list(h[i].bases))
    out = [i]
    seqs = [s[:] for s in seqs if s]
    while seqs:
        for s in seqs:
            cand = s[0]
            if not any(cand in t[1:] for t in seqs):
                break
        else:
            return None
        out.append(cand)
        seqs = [[x for x in s if x != cand] for s in seqs]
        seqs = [s for s in seqs if s]
    return out


def base_lists(i: int):
    yield ()
    for a in range(i):
        yield (a,)
    for a, b in itertools.permutations(range(i), 2):
        yield (a, b)


def enumerate_hierarchies(tier: str):
    """Yield tuples of Cls, simplest first; only hierarchies with a consistent MRO and at least one public class that
    has a private base."""
    max_full = 3 if tier == "quick" else 4

    def rec(prefix: tuple[Cls, ...], n: int):
        i = len(prefix)
        if i == n:
            yield prefix
            return
        for private in (False, True):
            for bases in base_lists(i):
                for ms in METHOD_SETS:
                    yield from rec((*prefix, Cls(private, bases, ms)), n)

    def interesting(h) -> bool:
        return any((not c.private) and any(h[b].private for b in c.bases) for c in h) and all(c3(h, i) is not None for i in range(len(h)))

    for n in range(2, max_full + 1):
        for h in rec((), n):
            if interesting(h):
                yield h, "full"
    # larger shapes: fixed graphs, all privacy assignments, two method placements
    shapes = {
        "chain4": [(), (0,), (1,), (2,)],
        "fork4": [(), (), (0, 1), (2,)],
        "diamond4": [(), (0,), (0,), (1, 2)],
        "diamond4r": [(), (0,), (0,), (2, 1)],
        "chain5": [(), (0,), (1,), (2,), (3,)],
        "diamond5": [(), (0,), (0,), (1, 2), (3,)],
        "wide5": [(), (), (), (0, 1), (3, 2)],
        "ladder5": [(), (0,), (0,), (1,), (3, 2)],
    }
    placements = [lambda i, n: ("m1",), lambda i, n: ("m1",) if i % 2 == 0 else ("m2",), lambda i, n: ("m1", "m2") if i == 0 else (("m1",) if i == n - 1 else ())]
    for name, graph in shapes.items():
        n = len(graph)
        if tier == "quick" and n == 5 and name not in ("chain5", "diamond5"):
            continue
        for privs in itertools.product((False, True), repeat=n):
            for pl in placements:
                h = tuple(Cls(privs[i], tuple(graph[i]), pl(i, n)) for i in range(n))
                if interesting(h):
                    yield h, name
    # properties instead of methods: a property p1 defined by any non-empty subset of the classes (redefined by the
    # subclass itself, by a nearer ancestor, or reachable twice through a diamond)
    prop_graphs = {"pchain2": [(), (0,)], "pchain3": [(), (0,), (1,)], "pfork3": [(), (), (0, 1)], "pdiamond4": [(), (0,), (0,), (1, 2)]}
    for name, graph in prop_graphs.items():
        n = len(graph)
        for privs in itertools.product((False, True), repeat=n):
            for k in range(1, n + 1):
                for definers in itertools.combinations(range(n), k):
                    h = tuple(Cls(privs[i], tuple(graph[i]), ("p1",) if i in definers else ()) for i in range(n))
                    if interesting(h):
                        yield h, name
    # abstract public classes (ABC next to the other bases): same expectations as for any other class
    for graph in ([(), (0,)], [(), (0,), (1,)], [(), (), (0, 1)], [(), (0,), (0,), (1, 2)]):
        n = len(graph)
        for privs in itertools.product((False, True), repeat=n - 1):
            h = tuple(Cls((*privs, False)[i], tuple(graph[i]), ("m1",) if i < n - 1 else ("m2",), ("abstract",) if i == n - 1 else ()) for i in range(n))
            if interesting(h):
                yield h, "abstract"
    # extras on a private base of a simple chain / fork
    for extras in itertools.chain.from_iterable(itertools.combinations(["private_method", "property", "static", "nested", "classmethod", "dunder", "nested_same"], k) for k in (1, 2, 7)):
        for graph in ([(), (0,)], [(), (0,), (1,)], [(), (), (0, 1)], [(), (0,), (0,), (1, 2)]):
            n = len(graph)
            h = tuple(Cls(i < n - 1, tuple(graph[i]), ("m1",) if i == 0 else (), tuple(extras) if i < n - 1 else ()) for i in range(n))
            yield h, "extras"


def render(h: tuple[Cls, ...], u: str, split: bool | str) -> dict[str, str]:
    """Module(s) for hierarchy h.  split=True: private classes live in a second module and are imported.
    split="same": one module, but the private classes carry the SAME names (_Kx<i>) in every hierarchy of the run."""
    def cname(i: int) -> str:
        if split == "same" and h[i].private:
            return f"_Kx{i}"
        return ("_" if h[i].private else "") + f"K{u}x{i}"

    main, priv = [], []
    for i, c in enumerate(h):
        base_names = [cname(b) for b in c.bases] + (["ABC"] if "abstract" in c.extras else [])
        bases = "(" + ", ".join(base_names) + ")" if base_names else ""
        body = []
        for m in c.methods:
            body.append((f"    @property\n" if m.startswith("p") else "") + f"    def {m}_{u}(self) -> {TYPES[i]}:\n        ...\n")
        if "private_method" in c.extras:
            body.append(f"    def _pm{u}x{i}(self) -> int:\n        ...\n")
        if "property" in c.extras:
            body.append(f"    @property\n    def pr{u}x{i}(self) -> {TYPES[i]}:\n        ...\n")
        if "static" in c.extras:
            body.append(f"    @staticmethod\n    def sm{u}x{i}(a: int) -> {TYPES[i]}:\n        ...\n")
        if "classmethod" in c.extras:
            body.append(f"    @classmethod\n    def cm{u}x{i}(cls) -> {TYPES[i]}:\n        ...\n")
        if "dunder" in c.extras:
            body.append(f"    def __call__(self, a: int) -> {TYPES[i]}:\n        ...\n")
        if "nested_same" in c.extras:
            # a public nested class that carries the SAME name in every class of the hierarchy that has it
            body.append(f"    class Meta{u}:\n        def mm{u}x{i}(self) -> int:\n            ...\n")
        if "nested" in c.extras:
            body.append(f"    class Nest{u}x{i}:\n        def nm{u}(self) -> int:\n            ...\n")
        text = f"class {cname(i)}{bases}:\n" + ("\n".join(body) if body else "    pass\n")
        (priv if (split is True and c.private) else main).append((i, text))
    abc_import = "from abc import ABC\n\n\n" if any("abstract" in c.extras for c in h) else ""
    if split is not True:
        return {f"h{u}.py": abc_import + "\n\n".join(t for _, t in main) + "\n"}
    # with split, private classes must not depend on public classes of the main module (import cycle): caller guarantees
    imports = "".join(f"from {PKG}._hb{u} import {cname(i)}\n" for i, _ in priv)
    return {f"_hb{u}.py": "\n\n".join(t for _, t in priv) + "\n", f"h{u}.py": imports + "\n\n" + "\n\n".join(t for _, t in main) + "\n"}


def expectations(h: tuple[Cls, ...]):
    """For each public class: (index, expected sub list, required member names -> set of acceptable definer indices | None)."""
    out = []
    for ci, c in enumerate(h):
        if c.private:
            continue
        # private-reachable ancestors with BFS distance through private-only paths
        dist: dict[int, int] = {}
        frontier = [b for b in c.bases if h[b].private]
        d = 1
        while frontier:
            nxt = []
            for a in frontier:
                if a not in dist:
                    dist[a] = d
                    nxt += [b for b in h[a].bases if h[b].private]
            frontier = nxt
            d += 1
        mro = c3(h, ci) or [ci]
        required: dict[str, set[int] | None] = {}
        for m in ("m1", "m2", "p1"):
            if m in c.methods:
                required[m] = {ci}
                continue
            definers = [a for a in dist if m in h[a].methods]
            if not definers:
                continue
            nearest = min(dist[a] for a in definers)
            near = [a for a in definers if dist[a] == nearest]
            mro_first = next((a for a in mro if a in definers), None)
            if len(near) == 1 and near[0] == mro_first:
                required[m] = {near[0]}
            else:
                required[m] = set(definers)  # precedence between equally near / MRO-vs-distance conflicts: don't care
        extras_required, extras_forbidden = [], []
        for a in dist:
            for e in h[a].extras:
                (extras_forbidden if e == "private_method" else extras_required).append((e, a))
        # the superclass list: the direct public bases and, in place of a private base, the public classes that base derives
        # from (directly or through further private classes) - a public ancestor does not vanish behind a private one
        subs: list[int] = []

        def collect(bases) -> None:  # noqa: ANN001
            for b in bases:
                if h[b].private:
                    collect(h[b].bases)
                elif b not in subs:
                    subs.append(b)

        collect(c.bases)
        out.append((ci, subs, required, extras_required, extras_forbidden, set(dist)))
    return out


def shape_sig(h: tuple[Cls, ...], ci: int) -> str:
    """Signature of the hierarchy as seen from public class ci: its base list by privacy and the sub-graph shape."""
    c = h[ci]
    kinds = "".join("q" if h[b].private else "P" for b in c.bases)
    deep = any(h[b].private and any(h[x].private for x in h[b].bases) for b in c.bases)
    two_priv = sum(1 for b in c.bases if h[b].private) >= 2
    shared = False
    if two_priv:
        anc = []
        for b in c.bases:
            if h[b].private:
                s, st = set(), [b]
                while st:
                    x = st.pop()
                    if x not in s:
                        s.add(x)
                        st += [y for y in h[x].bases if h[y].private]
                anc.append(s)
        shared = len(anc) >= 2 and bool(anc[0] & anc[1])
    return f"bases={kinds}{':chain' if deep else ''}{':diamond' if shared else ''}"


def run(rep: Report, tier: str, seed: int) -> None:
    units = []
    uid = itertools.count(1)
    for h, family in enumerate_hierarchies(tier):
        u = f"{next(uid):06d}"
        units.append((u, h, family, False))
        # private bases in a second module: only when no private class derives from a public one (no import cycle)
        if family in ("full", "extras") and len(h) <= 3 and not any(c.private and any(not h[b].private for b in c.bases) for c in h) and any(c.private for c in h):
            u2 = f"{next(uid):06d}"
            units.append((u2, h, family + ":split", True))
        # equally named private classes in different modules (names are the only thing the modules share)
        if family in ("full", "extras") and len(h) <= 3:
            u3 = f"{next(uid):06d}"
            units.append((u3, h, family + ":same", "same"))
    rep.rule = (
        f"all class hierarchies of <= {3 if tier == 'quick' else 4} classes (each public/private, ordered base lists of size <= 2 over earlier classes, method subsets of {{m1,m2}} with a distinct return type per definer) that have a consistent MRO and a public class with a private base;"
        " 4-5 class chains, forks, diamonds, ladders under all privacy assignments x 3 method placements; abstract public classes (ABC next to the other bases) over a chain, a fork and a diamond; a property defined by every non-empty subset of the classes of a 2/3-chain, a fork and a diamond under all privacy assignments; private bases with private method / property / static / class method / nested class / equally named nested classes / dunder method (__call__), over chains, a fork and a diamond; public classes behind private bases (they belong to the superclass list); private bases in a second module; private bases that carry the same class names in every module; private bases written through a module-level alias (in the public class and one level up); the 'extras' family and all hierarchies of <= 3 classes also under naming conversion (method names contain an underscore); one hierarchy per module; distinct = distinct hierarchy"
    )

    def label(h, family) -> str:
        return family + ":" + ";".join(f"{'_' if c.private else ''}{i}({','.join(map(str, c.bases))})[{'+'.join(c.methods)}]{'{' + ','.join(c.extras) + '}' if c.extras else ''}" for i, c in enumerate(h))

    def build(us):
        files = {f"{PKG}/__init__.py": ""}
        for u, h, family, split in us:
            for rel, text in render(h, u, split).items():
                files[f"{PKG}/{rel}"] = text
        return files, PKG

    def on_group(us, opts, obs: Obs, files) -> None:
        if obs.outcome != "completed":
            for u, h, family, split in us:
                rep.case(label(h, family))
                rep.violation("run-completes", f"run:{obs.outcome}:{obs.crash_sig()}|{family}", {"hierarchy": label(h, family), "exc": obs.exc_type + ": " + obs.exc_msg, "tb": obs.exc_tb[-400:]}, files=build([(u, h, family, split)])[0], src_rel=PKG, opts=opts, obs=obs)
            return
        idx = index_stubs(obs)
        for u, h, family, split in us:
            lb = label(h, family) + ("|nc" if opts.convert else "")
            rep.case(lb, True, sample={"hierarchy": lb, "python": next(iter(render(h, u, split).values()))[:400]} if int(u) % 1499 == 0 else None)
            mini = build([(u, h, family, split)])[0]
            for ci, sub_expected, required, ex_req, ex_forb, reach in expectations(h):
                cname = f"K{u}x{ci}"
                hits = idx.find(cname, "class")
                if len(hits) != 1:
                    rep.extra["class_not_found(C03)"] = rep.extra.get("class_not_found(C03)", 0) + 1
                    continue
                path, _, d = hits[0]
                sig0 = shape_sig(h, ci) + ("|split" if split is True else ("|same-names" if split == "same" else "")) + ("|nc" if opts.convert else "")

                def viol(clause, feat, detail, sig0=sig0, lb=lb, mini=mini, d=d) -> None:
                    rep.violation(clause, f"{clause}:{feat}|{sig0}", {"hierarchy": lb, "class": d.py_name, "members": [(m.kind, m.py_name, [r.type.render() for r in (m.results or []) if r.type]) for m in d.members], "sub": [p.render() for p in d.parents], **detail}, files=mini, src_rel=PKG, opts=opts)

                names = Counter(m.py_name for m in d.members)
                dups = [n for n, k in names.items() if k > 1]
                if dups:
                    viol("member-once", "duplicate", {"duplicates": dups})
                else:
                    rep.ok("member-once")
                for m, definers in required.items():
                    nm = f"{m}_{u}"  # (with an underscore: a name that the naming conversion changes)
                    is_prop = m.startswith("p")
                    shown = [x for x in d.members if x.py_name == nm and x.kind == ("attr" if is_prop else "fun")]
                    if not shown:
                        if is_prop and ci not in (definers or set()):
                            # inherited properties are counted, not required (the statement names methods)
                            rep.extra["inherited_property_missing(dontcare)"] = rep.extra.get("inherited_property_missing(dontcare)", 0) + 1
                            continue
                        viol("inherited-present", "missing" if ci not in (definers or set()) else "own-missing", {"method": nm})
                        continue
                    rep.ok("inherited-present")
                    types = {x.type.render() for x in shown if x.type} if is_prop else {r.type.render() for x in shown for r in (x.results or []) if r.type}
                    ok_types = {IMG[TYPES[a]] for a in definers}
                    if not types <= ok_types:
                        viol("precedence", "own" if definers == {ci} else "nearest", {"method": nm, "shown_result": sorted(types), "acceptable": sorted(ok_types)})
                    else:
                        rep.ok("precedence")
                for e, a in ex_req:
                    nm = {"property": f"pr{u}x{a}", "static": f"sm{u}x{a}", "nested": f"Nest{u}x{a}", "classmethod": f"cm{u}x{a}", "dunder": "__call__", "nested_same": f"Meta{u}"}[e]
                    kind = {"property": "attr", "static": "fun", "nested": "class", "classmethod": "fun", "dunder": "fun", "nested_same": "class"}[e]
                    if not any(x.py_name == nm and x.kind == kind for x in d.members):
                        if e in ("static", "classmethod", "dunder"):
                            viol("inherited-present", f"missing-{e}", {"member": nm})
                        else:
                            rep.extra[f"inherited_{e}_missing(dontcare)"] = rep.extra.get(f"inherited_{e}_missing(dontcare)", 0) + 1
                    else:
                        rep.ok("inherited-present")
                for e, a in ex_forb:
                    nm = f"_pm{u}x{a}"
                    if any(x.py_name == nm for x in d.members):
                        viol("no-private-member", "inherited", {"member": nm})
                    else:
                        rep.ok("no-private-member")
                subs = [p.render() for p in d.parents]
                if any(s.lstrip("`").startswith("_") for s in subs):
                    viol("no-private-superclass", "listed", {})
                elif subs != [f"K{u}x{b}" for b in sub_expected]:
                    viol("public-superclasses-in-order", f"{len(sub_expected)}", {"expected": [f"K{u}x{b}" for b in sub_expected]})
                else:
                    rep.ok("superclass-list")
                # a public base defined in another module must be imported: all classes of one hierarchy share a module here,
                # except split units, where public classes import private ones only -> nothing to import in the stub

    stats: dict[str, int] = {}

    # ---- a module whose NAME ends with the name of the module that defines the base class (string-suffix look-ups)
    decoys = {
        "private-base": ({"sd1/__init__.py": "", "sd1/a.py": "class _Base:\n    def from_a(self) -> int:\n        return 1\n", "sd1/Xa.py": "class _Base:\n    def from_xa(self) -> int:\n        return 1\n",
                          "sd1/m.py": "from .a import _Base\n\n\ndef f() -> None:\n    x = _Base()\n\n\nclass CDecoy1(_Base):\n    pass\n"}, "CDecoy1", ["from_a"], ["from_xa"], None),
        "public-base": ({"sd2/__init__.py": "", "sd2/a.py": "class Base:\n    def from_a(self) -> int:\n        return 1\n", "sd2/Xa.py": "class Base:\n    def from_xa(self) -> int:\n        return 1\n",
                         "sd2/m.py": "from .a import Base\n\n\ndef f() -> None:\n    x = Base()\n\n\nclass CDecoy2(Base):\n    pass\n"}, "CDecoy2", [], [], "vpkg.sd2.a"),
    }

    # a base class that is written through a module-level ALIAS of a private class (at the public class and one level up)
    decoys["alias-of-private-base-in-private-class"] = ({"sd3/__init__.py": "", "sd3/base.py": "class _A3:\n    def fa3(self) -> int:\n        return 1\n",
                                                          "sd3/m.py": "from . import base\n\n_AliasA3 = base._A3\n\n\nclass _B3(_AliasA3):\n    def fb3(self) -> int:\n        return 1\n\n\nclass CDecoy3(_B3):\n    pass\n"}, "CDecoy3", ["fa3", "fb3"], [], None)
    decoys["alias-of-private-base-same-module"] = ({"sd4/__init__.py": "", "sd4/m.py": "class _A4:\n    def fa4(self) -> int:\n        return 1\n\n\n_AliasA4 = _A4\n\n\nclass _B4(_AliasA4):\n    def fb4(self) -> int:\n        return 1\n\n\nclass CDecoy4(_B4):\n    pass\n"}, "CDecoy4", ["fa4", "fb4"], [], None)
    decoys["alias-of-private-base-in-public-class"] = ({"sd5/__init__.py": "", "sd5/base.py": "class _A5:\n    def fa5(self) -> int:\n        return 1\n",
                                                        "sd5/m.py": "from . import base\n\nAliasA5 = base._A5\n\n\nclass CDecoy5(AliasA5):\n    def own5(self) -> int:\n        return 1\n"}, "CDecoy5", ["fa5", "own5"], [], None)

    # two private classes of the same name in modules of the same FILE name (a.py, sub/a.py); the other one is instantiated in its module
    decoys["same-named-private-base-in-same-named-module"] = ({"sd6/__init__.py": "", "sd6/a.py": "class _Base6:\n    def from_a6(self) -> int:\n        return 1\n\n\n_default6 = _Base6()\n", "sd6/sub6/__init__.py": "",
                                                               "sd6/sub6/a.py": "class _Base6:\n    def from_sub_a6(self) -> int:\n        return 1\n", "sd6/sub6/m.py": "from .a import _Base6\n\n\nclass CDecoy6(_Base6):\n    pass\n"}, "CDecoy6", ["from_sub_a6"], ["from_a6"], None)
    # a private base written with type arguments
    decoys["subscripted-private-base"] = ({"sd7/__init__.py": "", "sd7/m.py": "from typing import Generic, TypeVar\n\nT7 = TypeVar('T7')\n\n\nclass _G7(Generic[T7]):\n    def get7(self) -> int:\n        return 1\n\n\nclass CDecoy7(_G7[int]):\n    def own7(self) -> int:\n        return 1\n"}, "CDecoy7", ["get7", "own7"], [], None)

    def build_d(us):
        files = {f"{PKG}/__init__.py": ""}
        for name in us:
            files.update({f"{PKG}/{k}": v for k, v in decoys[name][0].items()})
        return files, PKG

    def on_d(us, opts, obs: Obs, files) -> None:
        if obs.outcome != "completed":
            rep.violation("run-completes", f"run:{obs.outcome}:{obs.crash_sig()}|decoy", {"exc": obs.exc_type + ": " + obs.exc_msg}, files=files, src_rel=PKG, opts=opts, obs=obs)
            return
        idx = index_stubs(obs)
        for name in us:
            _, cls, must, must_not, import_from = decoys[name]
            rep.case(f"decoy:{name}", True)
            hits = idx.find(cls, "class")
            if len(hits) != 1:
                rep.extra["class_not_found(C03)"] = rep.extra.get("class_not_found(C03)", 0) + 1
                continue
            path, _, d = hits[0]
            members = [m.py_name for m in d.members]
            mod = idx.modules[path]
            imports = [(i.package, i.name) for i in mod.imports]
            bad = [m for m in must if m not in members] + [m for m in must_not if m in members]
            if bad or (import_from and not any(pk == import_from for pk, _n in imports)):
                rep.violation("inherited-present", f"decoy:{name}", {"class": cls, "members": members, "imports": imports, "expected_members": must, "forbidden_members": must_not, "expected_import_from": import_from}, files=build_d([name])[0], src_rel=PKG, opts=opts)
            else:
                rep.ok("inherited-present")

    run_packed([(list(decoys), Opts())], build_d, on_d, stats)
    plain = [x for x in units if x[3] != "same"]
    same = [x for x in units if x[3] == "same"]
    # equally named private classes make the analyser's name-keyed tables grow with the number of modules: small runs
    groups = [(plain[i : i + 500], Opts()) for i in range(0, len(plain), 500)] + [(same[i : i + 12], Opts()) for i in range(0, len(same), 12)]
    # private members of private bases must stay out under naming conversion too (converted names lose their underscore)
    extras_units = [x for x in plain if x[2].startswith("extras") or (x[2] in ("full", "pchain2", "pchain3", "pfork3", "abstract") and len(x[1]) <= 3)]
    groups += [(extras_units[i : i + 500], Opts(convert=True)) for i in range(0, len(extras_units), 500)]
    run_packed(groups, build, on_group, stats)
    rep.extra.update(stats)
    rep.extra["hierarchies"] = len(units)
    rep.assumptions = [
        "precedence is judged only where 'nearest private ancestor' (BFS distance through private classes) is unique and agrees with Python's MRO; otherwise any private-reachable definer is accepted",
        "inherited properties and nested classes of private bases are counted, not required (the statement names methods); methods reachable only through a public base are not required",
    ]
