"""Sigma_form: the declaration / tree / docstring forms C01 enumerates (one per dispatch arm or unguarded assumption
in the anchored code).  Every letter is a function u -> {relative path: source}; u is a unique suffix."""

from __future__ import annotations

FORMS: dict[str, str | dict[str, str]] = {}


def form(name: str, src: str | dict[str, str]) -> None:
    FORMS[name] = src


# ---- parameters: kinds, receivers, defaults of every expression class -----------------------------------------
form("param:all-kinds", "def f@(a, b: int, /, c, d: str = 'x', *args: int, e, f: bool = True, **kwargs: str) -> None:\n    ...\n")
form("param:bare-star", "def f@(a, *, b, c=1):\n    ...\n")
form("param:self-named-this", "class C@:\n    def m(this, a: int) -> int:\n        return a\n")
form("param:method-without-params", "class C@:\n    def m():\n        return 1\n")
form("param:cls-named-klass", "class C@:\n    @classmethod\n    def m(klass, a: int) -> int:\n        return a\n")
for _n, _d in {
    "int": "1", "float": "1.5", "str": "'s'", "bytes": "b'x'", "complex": "1j", "bool": "True", "none": "None", "name": "CONST", "attribute": "math.pi", "call": "int()",
    "neg": "-1", "pos": "+1", "not": "not 1", "invert": "~1", "binop": "1 + 2", "list": "[1, 2]", "dict": "{'a': 1}", "set": "{1, 2}", "tuple": "(1, 2)", "empty-tuple": "()",
    "lambda": "lambda x: x", "fstring": "f'{CONST}'", "ellipsis": "...", "conditional": "1 if CONST else 2", "comparison": "1 < 2", "index": "LIST[0]", "neg-name": "-CONST",
    "neg-float": "-1.5", "double-neg": "--1", "str-concat": "'a' 'b'", "big-int": "10**30", "inf": "1e999", "slice-call": "slice(1)", "neg-binop": "-(1 + 2)", "invert-binop": "~(1 | 2)", "not-call": "not int()", "surrogate-str": "'\\ud800'", "nul-str": "'a\\x00b'", "newline-str": "'a\\nb'", "star-expr": "[*LIST]", "walrus": "(y := 1)", "await-like": "type(1)",
}.items():  # fmt: skip
    form(f"default:{_n}:untyped", f"import math\n\nCONST = 3\nLIST = [1]\n\n\ndef f@(a={_d}):\n    return None\n")
    form(f"default:{_n}:typed", f"import math\nfrom typing import Any\n\nCONST = 3\nLIST = [1]\n\n\ndef f@(a: Any = {_d}) -> None:\n    return None\n")
form("default:vararg-kw-defaults", "def f@(*args, k=(), **kw):\n    ...\n")

# ---- un-annotated returns --------------------------------------------------------------------------------------
for _n, _r in {
    "int": "1", "str": "'s'", "none": "None", "bare": "", "neg": "-1", "tuple": "1, 's'", "nested-tuple": "(1, (2, 3))", "cond": "1 if a else 's'", "cond-call": "int() if a else 1", "name-param": "a",
    "name-global": "CONST", "self": "self_", "call": "int(a)", "attribute": "a.real", "list": "[1]", "dict": "{}", "set": "{1}", "binop": "a + 1", "compare": "a == 1", "not": "not a", "index": "a[0]",
    "lambda": "lambda: 1", "fstring": "f'{a}'", "bytes": "b'x'", "complex": "1j", "float": "1.5", "bool-op": "a and 1", "await": "None", "yield-like": "(x for x in a)", "list-comp": "[x for x in a]",
    "ellipsis": "...", "star-tuple": "*a, 1", "walrus": "(b := 1)", "cond-none": "None if a else 1", "tuple-with-call": "1, int()", "tuple-with-name": "1, a", "unary-name": "-a", "str-call": "'x'.upper()",
}.items():  # fmt: skip
    form(f"return:{_n}", f"CONST = 1\n\n\ndef f@(a, self_=None):\n    return {_r}\n")
    form(f"return:{_n}:method", f"CONST = 1\n\n\nclass C@:\n    def m(self, a, self_=None):\n        return {_r}\n")
form("return:yield", "def f@(a):\n    yield a\n")
form("return:yield-and-return", "def f@(a):\n    yield a\n    return 1\n")
form("return:async", "async def f@(a):\n    return 1\n")
form("return:self-real", "class C@:\n    def m(self):\n        return self\n")
form("return:in-all-contexts", "def f@(c, xs):\n    try:\n        for x in xs:\n            with open('f') as fh:\n                while c:\n                    match c:\n                        case 1:\n                            return 1\n                        case _:\n                            return 's'\n                else:\n                    return 2.5\n        else:\n            return 1.5\n    except Exception:\n        return None\n    else:\n        return True\n    finally:\n        pass\n")
form("return:nested-def-only", "def f@(c):\n    def g():\n        return 1\n    g()\n")
form("return:property-inferred", "class C@:\n    @property\n    def p(self):\n        return 1\n")

# ---- annotations -----------------------------------------------------------------------------------------------
_HDR = "import typing\nfrom typing import *\nfrom collections.abc import Callable, Sequence, Collection, Mapping, Iterable, Iterator, Generator, Awaitable\n\nT = TypeVar('T')\nP = ParamSpec('P')\n\n\n"
for _n, _a in {
    "type": "type[int]", "type-bare": "type", "annotated": "Annotated[int, 'x']", "paramspec-callable": "Callable[P, int]", "concatenate": "Callable[Concatenate[int, P], int]", "typeguard": "TypeGuard[int]",
    "never": "Never", "noreturn": "NoReturn", "forward-ref": "'Later@'", "unresolved": "Undefined@", "third-party": "thirdparty.Thing", "bare-list": "list", "bare-dict": "dict", "bare-tuple": "tuple",
    "bare-callable": "Callable", "tuple-ellipsis": "tuple[int, ...]", "empty-tuple": "tuple[()]", "callable-ellipsis": "Callable[..., int]", "nested-callable": "Callable[[Callable[[int], str]], Callable[[], None]]",
    "iterator": "Iterator[int]", "generator": "Generator[int, None, str]", "awaitable": "Awaitable[int]", "frozenset": "frozenset[int]", "literal-enum-like": "Literal['a', 1, True, None]", "literal-neg": "Literal[-1]",
    "literal-bytes": "Literal[b'x']", "optional-callable": "Optional[Callable[[int], int]]", "union-of-unions": "Union[int, Union[str, Union[None, float]]]", "self-type": "int", "typeddict-like": "dict[str, list[dict[str, int]]]",
    "list-multi": "list[int, str]", "set-multi": "set[int, str]", "dict-one-arg": "dict[str]", "dict-three": "dict[str, int, int]", "type-alias": "Alias@", "newtype": "NT@", "protocol": "Proto@", "any": "Any", "object": "object",
    "list-of-any": "list[Any]", "typevar-list": "list[T]", "union-typevar": "T | None", "final-param": "int", "classvar": "int", "unpack": "tuple[int, *tuple[str, ...]]", "literal-string": "LiteralString", "required": "int",
}.items():  # fmt: skip
    _extra = f"Alias@ = list[int]\nNT@ = NewType('NT@', int)\n\n\nclass Proto@(Protocol):\n    def m(self) -> int: ...\n\n\nclass Later@:\n    pass\n\n\n"
    form(f"annot:{_n}", _HDR + _extra + f"def f@(a: {_a}) -> {_a}:\n    ...\n\n\nclass K@:\n    x: {_a}\n\n    def __init__(self, q: {_a}) -> None:\n        self.y: {_a} = q\n")
form("annot:self", _HDR + "class C@:\n    def m(self) -> Self:\n        return self\n\n    def n(self, other: Self) -> list[Self]:\n        return [self]\n")
form("annot:pep695-function", "def f@[T](a: T) -> T:\n    return a\n")
form("annot:pep695-class", "class C@[T, U: int]:\n    def m(self, a: T, b: U) -> T:\n        return a\n")
form("annot:pep695-alias", "type X@ = list[int]\n\n\ndef f@(a: X@) -> X@:\n    return a\n")
form("annot:string-annotations-module", "from __future__ import annotations\n\n\nclass A@:\n    def m(self, o: B@) -> B@:\n        return o\n\n\nclass B@:\n    pass\n")
form("annot:final-attr", _HDR + "class C@:\n    a: Final = 1\n    b: Final[int] = 2\n    c: ClassVar[int] = 3\n    d: Final[int | str] = 4\n")

# ---- classes ---------------------------------------------------------------------------------------------------
form("class:generic-one", _HDR + "class C@(Generic[T]):\n    def m(self, a: T) -> T:\n        return a\n")
form("class:generic-two", _HDR + "U = TypeVar('U')\n\n\nclass C@(Generic[T, U]):\n    def __init__(self, a: T, b: U) -> None:\n        ...\n")
form("class:generic-bound-variance", _HDR + "Tco = TypeVar('Tco', covariant=True)\nTcon = TypeVar('Tcon', contravariant=True, bound=int)\nTv = TypeVar('Tv', int, str)\n\n\nclass C@(Generic[Tco, Tcon, Tv]):\n    pass\n")
form("class:protocol", _HDR + "class C@(Protocol):\n    def m(self) -> int: ...\n")
form("class:protocol-generic", _HDR + "class C@(Protocol[T]):\n    def m(self) -> T: ...\n")
form("class:abc", "from abc import ABC, abstractmethod\n\n\nclass C@(ABC):\n    @abstractmethod\n    def m(self) -> int: ...\n\n    def __init__(self, a: int) -> None:\n        ...\n")
form("class:enum", "from enum import Enum\n\n\nclass C@(Enum):\n    A = 1\n    B, C = 2, 3\n\n    def m(self) -> int:\n        return 1\n")
form("class:intenum-flag", "from enum import IntEnum, Flag, auto\n\n\nclass C@(IntEnum):\n    A = 1\n\n\nclass F@(Flag):\n    X = auto()\n")
form("class:strenum", "from enum import StrEnum\n\n\nclass C@(StrEnum):\n    A = 'a'\n")
form("class:enum-with-annotation", "from enum import Enum\n\n\nclass C@(Enum):\n    A: int = 1\n    _ignore_ = ['B']\n")
form("class:enum-subscript-member", "from enum import Enum\n\n\nclass C@(Enum):\n    A = 1\n    d = {}\n    d['k'] = 2\n")
form("class:namedtuple", "from typing import NamedTuple\n\n\nclass C@(NamedTuple):\n    a: int\n    b: str = 'x'\n")
form("class:typeddict", "from typing import TypedDict\n\n\nclass C@(TypedDict):\n    a: int\n\n\nclass D@(TypedDict, total=False):\n    b: str\n")
form("class:exception", "class C@(Exception):\n    def __init__(self, a: int) -> None:\n        self.a = a\n\n\nclass D@(C@):\n    pass\n")
form("class:subscripted-base", "class C@(list[int]):\n    pass\n\n\nclass D@(dict[str, int]):\n    pass\n")
for _b in ("Sequence[int]", "Sequence[list[int]]", "Collection[str]", "Mapping[str, int]", "Iterable[int]", "Sequence[T]", "Collection[T]", "Generic[T], Sequence[T]"):
    form(f"class:typing-base:{_b}", "from typing import Collection, Generic, Iterable, Mapping, Sequence, TypeVar\n\nT = TypeVar('T')\n\n\n" + f"class C@({_b}):  # type: ignore[misc]\n    pass\n")
form("class:user-class-named-like-builtin-generic", "class Mapping:\n    pass\n\n\nclass Sequence:\n    pass\n\n\nclass dict@:\n    pass\n\n\ndef f@(a: Mapping, b: Sequence, c: dict@) -> None:\n    ...\n")
form("class:metaclass", "class M@(type):\n    pass\n\n\nclass C@(metaclass=M@):\n    pass\n")
form("class:dataclass", "from dataclasses import dataclass, field\n\n\n@dataclass\nclass C@:\n    a: int\n    b: list[int] = field(default_factory=list)\n    c: str = 'x'\n")
# methods that the type checker generates (they exist in its class body, not in the source the docstring library reads)
form("class:dataclass-order", "from dataclasses import dataclass\n\n\n@dataclass(order=True)\nclass C@:\n    a: int\n    b: str = 'x'\n")
form("class:total-ordering", "import functools\n\n\n@functools.total_ordering\nclass C@:\n    def __init__(self, v: int) -> None:\n        self.v = v\n\n    def __eq__(self, other: object) -> bool:\n        return True\n\n    def __lt__(self, other: 'C@') -> bool:\n        return True\n")
form("class:dataclass-frozen-slots", "from dataclasses import dataclass\n\n\n@dataclass(frozen=True, slots=True)\nclass C@:\n    a: int = 1\n")
form("class:nested-3", "class A@:\n    class B@:\n        class C@:\n            x: int = 1\n\n            def m(self) -> 'A@.B@.C@':\n                return self\n")
form("class:enum-in-class", "from enum import Enum\n\n\nclass A@:\n    class E@(Enum):\n        X = 1\n")
form("class:class-in-function", "def f@():\n    class Local@:\n        x: int = 1\n    return Local@\n")
form("class:named-like-module", {"samename@.py": "class samename@:\n    '''Doc.'''\n\n    def m(self, a: int) -> int:\n        '''Doc m.\n\n        Parameters\n        ----------\n        a : int\n            d\n        '''\n        return a\n"})
form("class:function-named-like-module", {"samefn@.py": "def samefn@(a: int) -> int:\n    '''Doc.\n\n    Parameters\n    ----------\n    a : int\n        d\n    '''\n    return a\n"})
form("class:base-from-call", "def mk@():\n    return object\n\n\nclass C@(mk@()):\n    pass\n")
form("class:base-attribute", "import collections\nimport abc\n\n\nclass C@(collections.abc.Mapping):\n    pass\n\n\nclass D@(abc.ABC):\n    pass\n")
form("class:private-base-other-module", {"_pb@.py": "class _Base@:\n    def inherited(self, a: set[int]) -> int:\n        return 1\n\n    class Inner@:\n        pass\n", "pub@.py": "from ._pb@ import _Base@\n\n\nclass C@(_Base@):\n    pass\n"})
form("class:private-base-unresolvable", "from thirdparty import _Hidden  # type: ignore[import-not-found]\n\n\nclass C@(_Hidden):\n    pass\n")
form("class:private-base-builtin-like", "class _P@(dict):\n    def pm(self) -> int:\n        return 1\n\n\nclass C@(_P@):\n    pass\n")
form("class:dunder-all-members", "class C@:\n    def __eq__(self, o: object) -> bool:\n        return True\n\n    def __hash__(self) -> int:\n        return 1\n\n    def __getitem__(self, k: int) -> int:\n        return k\n\n    __slots__ = ('a',)\n")

# ---- attributes ------------------------------------------------------------------------------------------------
form("attr:annotated-no-value", "class C@:\n    a: int\n    b: 'C@'\n    c: list['C@']\n")
form("attr:chained-assign", "class C@:\n    a = b = 1\n")
form("attr:tuple-assign", "class C@:\n    a, b = 1, 2\n    (c, d), e = (1, 2), 3\n")
form("attr:self-tuple-assign", "class C@:\n    def __init__(self) -> None:\n        self.a, self.b = 1, 2\n")
form("attr:self-nested-member", "class C@:\n    def __init__(self, o) -> None:\n        self.x = o\n        self.x.y = 1\n")
form("attr:self-index", "class C@:\n    def __init__(self) -> None:\n        self.d = {}\n        self.d['k'] = 1\n")
form("attr:augmented", "class C@:\n    a = 1\n    a += 1\n\n    def __init__(self) -> None:\n        self.b = 1\n        self.b += 1\n")
form("attr:reassigned-other-type", "class C@:\n    a = 1\n    a = 's'  # type: ignore[assignment]\n\n    def __init__(self) -> None:\n        self.a = 1.5  # type: ignore[assignment]\n")
form("attr:star-assign", "class C@:\n    a, *b = 1, 2, 3\n")
form("attr:local-in-init", "class C@:\n    def __init__(self, p: int) -> None:\n        local = p\n        other: int = p\n        self.q = local\n")
form("attr:init-with-early-return", "class C@:\n    def __init__(self, p: int) -> None:\n        if p:\n            self.a = 1\n            return\n        self.b = 2\n")
form("attr:init-nested-blocks", "class C@:\n    def __init__(self, p: int) -> None:\n        if p:\n            self.a = 1\n        for i in range(p):\n            self.b = i\n        with open('f') as fh:\n            self.c = fh\n        try:\n            self.d = 1\n        except Exception:\n            self.e = 2\n")
form("attr:lambda-attr", "class C@:\n    f = lambda self: 1\n    g = staticmethod(lambda: 2)\n")
form("attr:callable-attr", "from collections.abc import Callable\n\n\nclass C@:\n    cb: Callable[[int], str]\n\n    def __init__(self, cb: Callable[[int], str]) -> None:\n        self.cb2 = cb\n")
form("attr:typevar-attr", "from typing import TypeVar\n\n\nclass C@:\n    T = TypeVar('T')\n")
form("attr:class-as-attr", "class C@:\n    class Inner@:\n        pass\n\n    alias = Inner@\n    inst = Inner@()\n")
form("attr:module-level-typed-globals", "from typing import Final\n\nA@: int = 1\nB@: Final = 2\nC@ = lambda x: x\n\n\ndef f@() -> int:\n    return A@\n")
form("attr:list-multi", "class C@:\n    a: list[int, str] = []\n    b: set[int, str] = set()\n    c: 'list[int]' = []\n")
form("attr:annotated-in-function-body", "def f@() -> None:\n    x: int = 1\n    y: list[int] = []\n")

# ---- functions -------------------------------------------------------------------------------------------------
form("func:overload-with-impl", "from typing import overload\n\n\n@overload\ndef f@(a: int) -> int: ...\n@overload\ndef f@(a: str) -> str: ...\ndef f@(a):\n    return a\n")
form("func:overload-method", "from typing import overload\n\n\nclass C@:\n    @overload\n    def m(self, a: int) -> int: ...\n    @overload\n    def m(self, a: str) -> str: ...\n    def m(self, a):\n        return a\n")
form("func:overload-without-impl", {"ov@.pyi": "", "ov_use@.py": "from typing import overload, Protocol\n\n\nclass C@(Protocol):\n    @overload\n    def m(self, a: int) -> int: ...\n    @overload\n    def m(self, a: str) -> str: ...\n"})
form("func:property-setter-deleter", "class C@:\n    @property\n    def v(self) -> int:\n        return 1\n\n    @v.setter\n    def v(self, x: int) -> None:\n        ...\n\n    @v.deleter\n    def v(self) -> None:\n        ...\n")
form("func:cached-property", "import functools\n\n\nclass C@:\n    @functools.cached_property\n    def v(self) -> int:\n        return 1\n")
form("func:wraps-decorator", "import functools\n\n\ndef deco@(fn):\n    @functools.wraps(fn)\n    def inner(*a, **k):\n        return fn(*a, **k)\n    return inner\n\n\n@deco@\ndef f@(a: int) -> int:\n    return a\n")
form("func:decorator-with-args", "import functools\n\n\n@functools.lru_cache(maxsize=None)\ndef f@(a: int) -> int:\n    return a\n\n\nclass C@:\n    @functools.lru_cache\n    def m(self, a: int) -> int:\n        return a\n")
form("func:static-class", "class C@:\n    @staticmethod\n    def s(a: int) -> int:\n        return a\n\n    @classmethod\n    def c(cls, a: int) -> 'C@':\n        return cls()\n")
form("func:async-method-generator", "class C@:\n    async def m(self, a: int) -> int:\n        return a\n\n    async def g(self):\n        yield 1\n")
form("func:nested-def", "def f@(a: int) -> int:\n    def g(b: int) -> int:\n        def h(c: int) -> int:\n            return c\n        return h(b)\n    return g(a)\n")
form("func:conditional-definitions", "import sys\nfrom typing import TYPE_CHECKING\n\nif TYPE_CHECKING:\n    from collections import OrderedDict\n\n    def only_typing@(a: 'OrderedDict') -> int: ...\nelse:\n    def only_typing@(a):\n        return 1\n\ntry:\n    import thirdparty_missing\nexcept ImportError:\n    thirdparty_missing = None\n\nif sys.version_info >= (3, 9):\n    def versioned@() -> int:\n        return 1\nelse:\n    def versioned@() -> str:\n        return ''\n")
form("func:same-name-twice", "def f@(a: int) -> int:\n    return a\n\n\ndef f@(a: str) -> str:  # type: ignore[no-redef]\n    return a\n\n\nclass C@:\n    def m(self) -> int:\n        return 1\n\n    def m(self) -> str:  # type: ignore[no-redef]\n        return ''\n")
form("func:lambda-module-level", "f@ = lambda a: a\ng@ = (lambda: 1)()\n")
form("func:dunder-module-function", "def __getattr__(name: str) -> int:\n    return 1\n\n\ndef __dir__() -> list[str]:\n    return []\n")
form("func:init-returns-value", "class C@:\n    def __init__(self):\n        return None\n")
form("func:init-classmethod-named", "class C@:\n    @classmethod\n    def __init_subclass__(cls, **kw) -> None:\n        ...\n\n    def __new__(cls, a: int):\n        return super().__new__(cls)\n\n    def __call__(self, *a, **k):\n        return 1\n")
form("func:typevar-bound-to-class", "from typing import TypeVar\n\n\nclass B@:\n    pass\n\n\nTB@ = TypeVar('TB@', bound=B@)\nTV@ = TypeVar('TV@', B@, int)\n\n\ndef f@(a: TB@, b: TV@) -> TB@:\n    return a\n")
form("func:uses-super-and-calls", "class A@:\n    def __init__(self, a: int) -> None:\n        self.a = a\n\n\nclass B@(A@):\n    def __init__(self) -> None:\n        super().__init__(1)\n        print(isinstance(self, A@), len([self.a]))\n        self.m = self.meth\n        self.m()\n\n    def meth(self) -> int:\n        return 1\n")
form("func:module-attribute-call", {"mac_a@.py": "def helper@(a: int) -> int:\n    return a\n\n\nclass K@:\n    pass\n", "mac_b@.py": "import vpkg.mac_a@\nfrom vpkg import mac_a@ as alias\n\n\ndef f@() -> int:\n    k = vpkg.mac_a@.K@()\n    del k\n    return vpkg.mac_a@.helper@(1) + alias.helper@(2)\n"})

# ---- module level ----------------------------------------------------------------------------------------------
form("module:dunder-all", "__all__ = ['f@']\n\n\ndef f@() -> int:\n    return 1\n\n\ndef g@() -> int:\n    return 2\n")
form("module:empty", "")
form("module:docstring-only", '"""Only a docstring."""\n')
form("module:only-imports", "import os\nfrom typing import Any\n")
form("module:star-import", {"si_a@.py": "class SA@:\n    pass\n\n\ndef sf@() -> int:\n    return 1\n", "si_b@.py": "from .si_a@ import *\nfrom os.path import *\n\n\ndef use@(a: SA@) -> SA@:\n    return a\n"})
form("module:relative-imports-levels", {"rl@/__init__.py": "from .. import rl_top@\n", "rl@/deep/__init__.py": "", "rl@/deep/m.py": "from ... import rl_top@\nfrom ...rl_top@ import Top@\nfrom .. import deep\nfrom . import sib\n\n\ndef f@(a: Top@) -> Top@:\n    return a\n", "rl@/deep/sib.py": "X = 1\n", "rl_top@.py": "class Top@:\n    pass\n"})
form("module:import-as-dotted", {"ia@/__init__.py": "", "ia@/inner.py": "class In@:\n    pass\n", "ia_use@.py": "import vpkg.ia@.inner as c\nimport vpkg.ia@.inner\n\n\ndef f@(a: c.In@) -> vpkg.ia@.inner.In@:\n    return a\n"})
form("module:import-cycle", {"cy_a@.py": "from __future__ import annotations\n\nimport vpkg.cy_b@\n\n\nclass A@:\n    def m(self) -> vpkg.cy_b@.B@:\n        ...\n", "cy_b@.py": "from __future__ import annotations\n\nimport vpkg.cy_a@\n\n\nclass B@:\n    def m(self) -> vpkg.cy_a@.A@:\n        ...\n"})
form("module:dunder-main", {"mainpkg@/__init__.py": "", "mainpkg@/__main__.py": "def main@() -> int:\n    return 1\n\n\nif __name__ == '__main__':\n    main@()\n"})
form("module:namespace-subdir", {"ns@/plain.py": "def in_namespace@() -> int:\n    return 1\n"})
form("module:decls-in-init", {"di@/__init__.py": "from .m import K@\n\n\nclass InInit@:\n    def m(self) -> K@:\n        ...\n\n\ndef fn_in_init@(a: InInit@) -> int:\n    return 1\n", "di@/m.py": "class K@:\n    pass\n"})
form("module:reexport-everything", {"re@/__init__.py": "from ._a import *\nfrom ._a import A@ as Alias@\nfrom . import _a as pub_a\nfrom ._a import _priv@ as made_public@\nimport vpkg.re@._a as dotted\n", "re@/_a.py": "class A@:\n    pass\n\n\ndef _priv@() -> A@:\n    ...\n\n\ndef pub@(a: A@) -> None:\n    ...\n"})
form("module:type-alias-and-typing-constructs", "from typing import TypeAlias, Union\n\nVector@: TypeAlias = list[float]\nMaybe@ = Union[int, None]\n\n\ndef f@(a: Vector@, b: Maybe@) -> Vector@:\n    return a\n")
form("module:global-statements", "import sys\n\nif sys.platform == 'linux':\n    X@ = 1\nfor _i in range(2):\n    pass\nwhile False:\n    pass\nwith open(__file__) as _f:\n    pass\ntry:\n    Y@ = 1\nexcept Exception:\n    Y@ = 2\nassert True\ndel _i\n\n\ndef f@() -> int:\n    global X@\n    return 1\n")
form("module:named-like-its-package", {"same@/__init__.py": "", "same@/same@.py": "def bar@(a: int) -> int:\n    \"\"\"Doc.\"\"\"\n    return a\n"})
form("module:function-named-like-module", {"fn@.py": "def fn@(a: int) -> int:\n    \"\"\"Doc.\"\"\"\n    return a\n"})
form("class:nested-class-named-like-outer", "class A@:\n    \"\"\"Outer.\"\"\"\n\n    class A@:\n        \"\"\"Inner.\"\"\"\n\n        def m(self, a: int) -> int:\n            \"\"\"Doc.\"\"\"\n            return a\n")
form("annot:recursive-type-alias", "from typing import Union\n\nJson@ = Union[dict[str, \"Json@\"], list[\"Json@\"], str, int, None]\n\n\ndef dumps@(x: Json@) -> str:\n    return \"\"\n\n\nclass K@:\n    a: Json@ = None\n")
form("annot:plain-type-aliases", "from typing import Optional, Union\n\nIntList@ = list[int]\nMaybe@ = Optional[IntList@]\nNested@ = Union[Maybe@, dict[str, IntList@]]\n\n\ndef f@(a: IntList@, b: Maybe@, c: Nested@) -> Nested@:\n    return c\n")
form("class:base-from-unresolvable-module", "import missing_lib@  # type: ignore[import-not-found]\n\n\nclass A@(missing_lib@.Base):\n    def f(self) -> int:\n        return 1\n")
form("module:qualified-access-to-package-variable", {"va@.py": "X@: int | None = None\nPAIR@ = (1, 2)\n", "vb@.py": "from . import va@\n\nY@ = va@.X@\nZ@ = va@.PAIR@\n\n\ndef f@() -> int:\n    return 1\n"})
form("module:unreachable-after-platform-guard", "import sys\n\nif sys.platform == \"win32\":\n    import winreg\nelse:\n    raise ImportError(\"Windows only\")\n\n\ndef f@(x):\n    return 1\n")
form("return:annotated-self-typevar", "from typing import Self, TypeVar\n\nT@ = TypeVar(\"T@\", bound=\"A@\")\n\n\nclass A@:\n    def clone(self: T@):\n        return self\n\n    def s3(self: Self):\n        return self\n")
form("return:name-from-unresolved-star-import", "from missing_lib@ import *  # type: ignore[import-not-found]\n\n\ndef f@():\n    return SOMETHING  # type: ignore[name-defined]  # noqa: F405\n")
form("class:internal-base-with-same-name-in-suffix-module", {"sb@.py": "class _Base:\n    def m(self) -> int:\n        return 1\n\n\n_inst@ = _Base()\n", "xsb@.py": "from .sb@ import _Base as _B\n\n\nclass _Base(_B):\n    def n(self) -> int:\n        return 1\n\n\nclass Pub@(_Base):\n    pass\n"})
form("class:enum-starred-and-nested-targets", "from enum import Enum\n\n\nclass E@(Enum):\n    A, *REST = range(3)\n\n\nclass F@(Enum):\n    (A, B), C = (1, 2), 3\n")
form("class:attribute-declared-in-if-assigned-later", "import sys\nfrom typing import List\n\n\nclass A@:\n    if sys.version_info >= (3, 9):\n        cache: list[int]\n    else:\n        cache: List[int]\n    cache = []\n")
form("module:name-defined-twice", "class A@:\n    def f(self) -> int:\n        \"\"\"Doc f.\"\"\"\n        return 1\n\n\nclass A@:  # type: ignore[no-redef]\n    def g(self) -> int:\n        \"\"\"Doc g.\"\"\"\n        return 1\n\n\nclass names@:\n    pass\n\n\ndef names@() -> int:  # type: ignore[no-redef]\n    \"\"\"Doc.\"\"\"\n    return 1\n")
form("module:non-ascii", "def grüße@(wert: int = 1) -> int:\n    '''Grüße – naïve café.'''\n    return wert\n\n\nclass Größe@:\n    π: float = 3.14\n")


# ---- docstrings, per style -------------------------------------------------------------------------------------
def _doc_forms() -> None:
    numpy = {
        "all-sections": "Summary.\n\n    Extended.\n\n    Parameters\n    ----------\n    a : int, default=1\n        The a.\n    b : {'x', 'y'}, optional\n        The b in the range [0, 1].\n    *args : int\n        Var.\n    **kwargs\n        Kw.\n\n    Other Parameters\n    ----------------\n    c : list of int\n        The c.\n\n    Returns\n    -------\n    r1 : int\n        First.\n    r2 : str\n        Second.\n\n    Yields\n    ------\n    int\n        Y.\n\n    Raises\n    ------\n    ValueError\n        If bad.\n\n    See Also\n    --------\n    other : thing\n\n    Notes\n    -----\n    Note.\n\n    Examples\n    --------\n    >>> f(1)\n    1\n    ",
        "types": "Summary.\n\n    Parameters\n    ----------\n    a : list[int] or tuple[int, str] or None\n        A.\n    b : dict[str, Callable[[int], str]] | set[int]\n        B.\n    c : Optional[Sequence[Mapping[str, Any]]]\n        C.\n    *args : collections.OrderedDict\n        D.\n    **kwargs : (int, str), optional\n        E.\n\n    Returns\n    -------\n    list[int, str]\n        R.\n    ",
        "malformed": "Summary.\n\n    Parameters\n    ---\n    a int\n    b :\n        B.\n     : int\n        no name\n\n    Returns\n    -------\n\n    Parameters\n    ----------\n    a : int\n        twice\n    ",
        "unknown-params": "Summary.\n\n    Parameters\n    ----------\n    zzz : int\n        Not a parameter.\n    a, b : int\n        Grouped.\n\n    Returns\n    -------\n    None\n    ",
    }
    google = {
        "all-sections": "Summary.\n\n    Extended.\n\n    Args:\n        a (int): The a. Defaults to 1.\n        b (str, optional): The b.\n        *args: Var.\n        **kwargs (int): Kw.\n\n    Returns:\n        int: The result.\n\n    Yields:\n        int: Y.\n\n    Raises:\n        ValueError: If bad.\n\n    Attributes:\n        x (int): X.\n\n    Examples:\n        >>> f(1)\n        1\n\n    Note:\n        N.\n    ",
        "types": "Summary.\n\n    Args:\n        a (list[int] | None): A.\n        b (dict[str, Callable[[int], str]]): B.\n        c (Optional[Sequence[int]]): C.\n        *args (int or str): D.\n        **kwargs ((int, str), optional): E.\n\n    Returns:\n        tuple[int, str]: R.\n    ",
        "malformed": "Summary.\n\n    Args:\n    a (int): not indented\n        b int: no parens\n        (int): no name\n\n    Returns:\n\n    Args:\n        a (int): twice\n    ",
        "unknown-params": "Summary.\n\n    Args:\n        zzz (int): Not a parameter.\n\n    Returns:\n        'quoted text' is something.\n    ",
    }
    rest = {
        "all-sections": "Summary.\n\n    Extended.\n\n    :param a: The a, defaults to 1\n    :type a: int\n    :param b: The b\n    :type b: str, optional\n    :param args: Var\n    :param kwargs: Kw\n    :raises ValueError: If bad\n    :return: The result\n    :rtype: int\n    :var x: X\n    :vartype x: int\n    ",
        "types": "Summary.\n\n    :param a: A\n    :type a: list[int] | None\n    :param b: B\n    :type b: dict[str, Callable[[int], str]]\n    :param c: C\n    :type c: Optional[Sequence[int]]\n    :param args: D\n    :type args: int or str\n    :returns: R\n    :rtype: tuple[int, str]\n    ",
        "malformed": "Summary.\n\n    :param: no name\n    :param a\n    :type a:\n    :param a: twice\n    :type zzz: int\n    :rtype:\n    :return:\n    ",
        "unknown-params": "Summary.\n\n    :param zzz: Not a parameter\n    :type zzz: int\n    :returns: r\n    :rtype: None\n    ",
    }
    for style, docs in (("NUMPYDOC", numpy), ("GOOGLE", google), ("REST", rest)):
        for name, d in docs.items():
            body = (
                f'def f@(a: int = 1, b: str = "x", c=None, *args, **kwargs):\n    """{d}"""\n    return 1, "s"\n\n\n'
                f'class C@:\n    """{d}"""\n\n    x: int = 1\n\n    def __init__(self, a: int = 1, b="x", *args, **kwargs) -> None:\n        """{d}"""\n        self.y = a\n\n'
                f'    def m(self, a, b, c):\n        """{d.replace(chr(10) + "    ", chr(10) + "        ")}"""\n        return a\n\n'
                f'    @property\n    def p(self) -> int:\n        """{d.replace(chr(10) + "    ", chr(10) + "        ")}"""\n        return 1\n'
            )
            form(f"doc:{style}:{name}", body)
    form("doc:any:weird-placement", 'def f@(a):\n    x = 1\n    """not a docstring"""\n    return x\n\n\nclass C@:\n    a = 1\n    """attribute docstring"""\n\n    def m(self):\n        """Doc."""\n        """second string"""\n')
    form("doc:any:raw-bytes-fstring", 'def f@(a):\n    r"""Raw \\d docstring."""\n\n\ndef g@(a):\n    b"""bytes"""\n\n\ndef h@(a):\n    f"""f {a}"""\n')
    form("doc:any:module-class-func", '"""Module doc.\n\nParameters\n----------\nx : int\n"""\n\n\nclass C@:\n    """Class doc.\n\n    Attributes\n    ----------\n    a : int\n        A.\n    b\n        B without type.\n    """\n\n    a = 1\n    b = None\n\n    def __init__(self) -> None:\n        self.c = 1\n')


_doc_forms()

# ---- docstring TYPE expressions: every container with too few / too many / odd arguments, per structured style ------------
DOC_TYPES = [
    "dict", "dict[str]", "dict[str, int]", "dict[str, int, float]", "Mapping[str]", "typing.Mapping[str]", "Mapping[str, int]", "list", "list[int]", "list[int, str]", "List[int]",
    "set", "set[int]", "set[int, str]", "frozenset[int]", "tuple", "tuple[int]", "tuple[int, ...]", "tuple[()]", "Optional", "Optional[int]", "Optional[int, str]", "Union", "Union[int]",
    "Union[int, str, None]", "Callable", "Callable[[int], str]", "Callable[..., int]", "Callable[int]", "Callable[[], None]", "Literal", "Literal[1]", "Literal['a', 1, None]", "Final[int]", "Final",
    "Sequence", "Sequence[int, str]", "Collection[int]", "Iterable[int]", "Iterator[int]", "Any", "None", "int or str", "int | None", "int | str | None", "{'a', 'b'}", "list of int", "array-like",
    "1", "'quoted'", "a.b.C", "SomeUnknown[int]", "type[int]", "int, optional", "bool, default=True", "list[list[dict[str]]]", "dict[str, dict[str]]", "C@", "list[C@]", "dict[C@]",
]


def _doctype_forms() -> None:
    for k, ty in enumerate(DOC_TYPES):
        numpy = f"Summary.\n\n    Parameters\n    ----------\n    a : {ty}\n        A.\n    b : {ty}\n        B.\n\n    Returns\n    -------\n    r : {ty}\n        R.\n    "
        google = f"Summary.\n\n    Args:\n        a ({ty}): A.\n        b ({ty}): B.\n\n    Returns:\n        {ty}: R.\n    "
        rest = f"Summary.\n\n    :param a: A\n    :type a: {ty}\n    :param b: B\n    :type b: {ty}\n    :returns: R\n    :rtype: {ty}\n    "
        attrs_numpy = f"Summary.\n\n    Attributes\n    ----------\n    x : {ty}\n        X.\n    "
        for style, d, ad in (("NUMPYDOC", numpy, attrs_numpy), ("GOOGLE", google, f"Summary.\n\n    Attributes:\n        x ({ty}): X.\n    "), ("REST", rest, "Summary.\n    ")):
            body = (
                f'class C@:\n    """{ad}"""\n\n    x = 1\n\n    def m(self, a, b: int):\n        """{d.replace(chr(10) + "    ", chr(10) + "        ")}"""\n        return a\n\n\n'
                f'def f@(a, b: int = 1):\n    """{d}"""\n    return a\n'
            )
            form(f"doctype:{style}:{k:02d}:{ty}", body)


_doctype_forms()


import re as _re

_PH = _re.compile(r"(?<=[A-Za-z0-9_])@")  # the placeholder follows an identifier character; decorators never do


def render(name: str, u: str) -> dict[str, str]:
    src = FORMS[name]
    if isinstance(src, str):
        return {f"z{u}.py": _PH.sub(u, src)}
    return {_PH.sub(u, k): _PH.sub(u, v) for k, v in src.items() if not k.endswith(".pyi")}
