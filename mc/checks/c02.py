"""C02 - every emitted stub file is syntactically valid Safe-DS (E1, DESIGN.md 6/C02).

One case per module (so one syntax error cannot hide another), many modules per tool run.  The oracle is the
independent recogniser mc/sds_parser.py; the clause of a violation is the recogniser's error class.
"""

from __future__ import annotations

import itertools

from ..driver import Obs, Opts
from ..explore import run_packed
from ..pkg import PKG
from ..report import Report
from ..sds_parser import KEYWORDS, SdsSyntaxError, parse_stub

PY_KEYWORDS = {"and", "as", "class", "from", "import", "in", "not", "or", "yield"}
SDS_WORDS = sorted(KEYWORDS | {"_"})  # the 33 entries of the generator's table
SHAPES = ["_", "__", "_1", "__x__", "a_b", "_a", "a_", "a__b", "A_b", "x1", "ä", "π", "aä"]

POSITIONS = [
    "function", "method", "class", "nested_class", "parameter", "ctor_parameter", "class_attr", "inst_attr", "property",
    "doc_result_name", "enum", "enum_member", "type_parameter", "class_type_parameter", "ctor_type_parameter", "imported_class", "module_name", "package_name",
    "superclass", "foreign_class",
]  # fmt: skip


def names_for_position(pos: str, tier: str) -> list[tuple[str, str]]:
    """(python identifier, feature label).  Keywords verbatim where Python allows, 'kw_' (becomes kw under conversion)
    and identifier shapes."""
    out = []
    for w in SDS_WORDS:
        if w not in PY_KEYWORDS:
            out.append((w, f"kw:{w}"))
        if w != "_":
            out.append((w + "_", f"kw_:{w}"))
    for sh in SHAPES:
        out.append((sh, f"shape:{sh}"))
    if pos in ("module_name", "package_name"):
        out = [(n, f) for n, f in out if n.isascii()]
    if pos == "foreign_class":
        out = [(n, f) for n, f in out if n in ("OrderedDict",)]
    return out


def render_position(pos: str, n: str, u: str) -> dict[str, str]:
    """Files (relative to vpkg/) for identifier `n` in position `pos`; `u` is a unique suffix for all other names."""
    m = f"m{u}.py"
    if pos == "function":
        return {m: f"def {n}(p: int) -> int:\n    ...\n"}
    if pos == "method":
        return {m: f"class C{u}:\n    def {n}(self, p: int) -> int:\n        ...\n"}
    if pos == "class":
        return {m: f"class {n}:\n    def f(self) -> int:\n        ...\n\n\ndef use{u}(p: {n}) -> {n}:\n    ...\n"}
    if pos == "nested_class":
        return {m: f"class C{u}:\n    class {n}:\n        def f(self) -> int:\n            ...\n"}
    if pos == "parameter":
        return {m: f"def f{u}({n}: int, q: int = 1) -> None:\n    ...\n"}
    if pos == "ctor_parameter":
        return {m: f"class C{u}:\n    def __init__(self, {n}: int) -> None:\n        ...\n"}
    if pos == "class_attr":
        return {m: f"class C{u}:\n    {n}: int = 1\n"}
    if pos == "inst_attr":
        return {m: f"class C{u}:\n    def __init__(self) -> None:\n        self.{n}: int = 1\n"}
    if pos == "property":
        return {m: f"class C{u}:\n    @property\n    def {n}(self) -> int:\n        return 1\n"}
    if pos == "doc_result_name":
        return {m: f'def f{u}() -> int:\n    """Summary.\n\n    Returns\n    -------\n    {n} : int\n        Description.\n    """\n    ...\n'}
    if pos == "enum":
        return {m: f"from enum import Enum\n\n\nclass {n}(Enum):\n    A = 1\n"}
    if pos == "enum_member":
        return {m: f"from enum import Enum\n\n\nclass E{u}(Enum):\n    {n} = 1\n"}
    if pos == "type_parameter":
        return {m: f'from typing import TypeVar\n\n{n} = TypeVar("{n}")\n\n\ndef f{u}(a: {n}) -> {n}:\n    ...\n'}
    if pos == "class_type_parameter":
        return {m: f'from typing import Generic, TypeVar\n\n{n} = TypeVar("{n}")\n\n\nclass C{u}(Generic[{n}]):\n    def f(self, a: {n}) -> {n}:\n        ...\n'}
    if pos == "ctor_type_parameter":
        # the class does not list the type variable itself: it becomes a class type parameter through the constructor
        return {m: f'from typing import TypeVar\n\n{n} = TypeVar("{n}")\n\n\nclass C{u}:\n    def __init__(self, a: {n}) -> None:\n        ...\n\n    def g(self, b: {n}) -> {n}:\n        ...\n'}
    if pos == "imported_class":
        return {f"d{u}.py": f"class {n}:\n    def f(self) -> int:\n        ...\n", m: f"from vpkg.d{u} import {n}\n\n\ndef f{u}(a: {n}) -> None:\n    ...\n"}
    if pos == "module_name":
        return {f"s{u}/__init__.py": "", f"s{u}/{n}.py": f"def f{u}() -> int:\n    ...\n"}
    if pos == "package_name":
        return {f"s{u}/__init__.py": "", f"s{u}/{n}/__init__.py": "", f"s{u}/{n}/mod{u}.py": f"class K{u}:\n    ...\n\n\ndef f{u}(a: K{u}) -> int:\n    ...\n"}
    if pos == "superclass":
        return {m: f"class {n}:\n    def g(self) -> int:\n        ...\n\n\nclass C{u}({n}):\n    def f(self) -> int:\n        ...\n"}
    if pos == "foreign_class":
        return {m: f"import collections\n\n\ndef f{u}(a: collections.{n}) -> None:\n    ...\n"}
    raise AssertionError(pos)


# -- (b) string / number values ------------------------------------------------------------------------------------
STR_ALPHABET = ["a", '"', "\\", "\n", "\t", "'", "{", "}", "*", "/", "é"]
NUM_DEFAULTS = ["0", "1", "-1", "1.5", "-0.0", "1e100", "1e-7", "1e999", "-1e999", "0x10", "1_000", "1e16", "123456789012345678901234567890"]


def string_letters(tier: str) -> list[str]:
    out = [""] + list(STR_ALPHABET)
    if tier == "thorough":
        out += ["".join(p) for p in itertools.product(STR_ALPHABET, repeat=2)]
    else:
        out += ["{{", "}}", "*/", "/*", '\\"', '"a', 'a"', "\\\\", "\\n", "a\nb", "{a}", "a b"]
    return out


def feat_of_string(s: str) -> str:
    special = sorted({c for c in s if c in '"\\\n\t\'{}*/é'})
    return "chars:" + ("".join({"\n": "\\n", "\t": "\\t"}.get(c, c) for c in special) or "plain") + (":{{" if "{{" in s else "")


# -- (c) documentation texts ---------------------------------------------------------------------------------------
DOC_FRAGMENTS = {
    "plain": "Plain text.", "close": "a */ b", "open": "a /* b", "opendoc": "a /** b", "atparam": "@param x y", "template": "a {{ b }} c",
    "tab": "a\tb", "nonascii": "ä π é", "backslash": "a \\ b \\n", "star_line": "*", "slash_end": "ends with /", "star_start": "*/", "quotes": 'say "hi" \'there\'',
    "example": ">>> f(1)\n... more\n2", "lt": "a < b > c",
}  # fmt: skip
# *_nosummary: the docstring starts directly with the section, there is no description text before it
DOC_ELEMENTS = ["module", "class", "function", "method", "parameter", "result", "attribute", "ctor", "parameter_nosummary", "result_nosummary", "ctor_nosummary"]


def render_doc(style: str, element: str, text: str, u: str) -> str:
    """A module in which `element` carries `text` in docstring style `style`."""
    ind = lambda s, k: ("\n" + " " * k).join(s.split("\n"))  # noqa: E731

    def section(kind: str, name: str, typ: str, desc: str, k: int) -> str:
        pad = " " * k
        if style == "NUMPYDOC":
            head = {"param": "Parameters", "result": "Returns", "attr": "Attributes"}[kind]
            return f"\n{pad}{head}\n{pad}{'-' * len(head)}\n{pad}{name} : {typ}\n{pad}    {ind(desc, k + 4)}\n"
        if style == "GOOGLE":
            head = {"param": "Args", "result": "Returns", "attr": "Attributes"}[kind]
            if kind == "result":
                return f"\n{pad}{head}:\n{pad}    {typ}: {ind(desc, k + 8)}\n"
            return f"\n{pad}{head}:\n{pad}    {name} ({typ}): {ind(desc, k + 8)}\n"
        if style == "REST":
            if kind == "result":
                return f"\n{pad}:returns: {ind(desc, k + 4)}\n{pad}:rtype: {typ}\n"
            if kind == "attr":
                return f"\n{pad}:ivar {name}: {ind(desc, k + 4)}\n"
            return f"\n{pad}:param {name}: {ind(desc, k + 4)}\n{pad}:type {name}: {typ}\n"
        return f"\n{pad}{name}: {ind(desc, k)}\n"

    if element == "module":
        return f'"""{text}"""\n\n\ndef f{u}() -> int:\n    ...\n'
    if element == "class":
        return f'class C{u}:\n    """{ind(text, 4)}"""\n\n    def f(self) -> int:\n        ...\n'
    if element == "function":
        return f'def f{u}(p: int) -> int:\n    """{ind(text, 4)}"""\n    ...\n'
    if element == "method":
        return f'class C{u}:\n    def f(self, p: int) -> int:\n        """{ind(text, 8)}"""\n        ...\n'
    if element.endswith("_nosummary"):
        return render_doc(style, element[: -len("_nosummary")], text, u).replace('"""Summary.\n', '"""', 1)
    if element == "parameter":
        return f'def f{u}(p: int) -> int:\n    """Summary.\n{section("param", "p", "int", text, 4)}    """\n    ...\n'
    if element == "result":
        return f'def f{u}(p: int) -> int:\n    """Summary.\n{section("result", "r", "int", text, 4)}    """\n    ...\n'
    if element == "attribute":
        return f'class C{u}:\n    """Summary.\n{section("attr", "a", "int", text, 4)}    """\n\n    a: int = 1\n'
    if element == "ctor":
        return f'class C{u}:\n    """Summary.\n{section("param", "p", "int", text, 4)}    """\n\n    def __init__(self, p: int) -> None:\n        """{ind(text, 8)}"""\n        self.x = p\n'
    raise AssertionError(element)


# -----------------------------------------------------------------------------------------------------------------


def run(rep: Report, tier: str, seed: int) -> None:
    # a unit is (label, feature-for-signature, files relative to vpkg/, stub-owner hint)
    groups: list[tuple[list, Opts]] = []
    uid = itertools.count()

    # (a) identifiers
    for pos in POSITIONS:
        units = []
        for n, feat in names_for_position(pos, tier):
            u = f"{next(uid):05d}"
            units.append((f"ident:{pos}:{n}", f"{pos}:{feat}", render_position(pos, n, u)))
        for convert in (False, True):
            style = "NUMPYDOC" if pos == "doc_result_name" else "PLAINTEXT"
            groups.append((units, Opts(docstyle=style, convert=convert)))

    # (b) string defaults, literal values, number defaults
    units = []
    for s in string_letters(tier):
        u = f"{next(uid):05d}"
        units.append((f"strdefault:{s!r}", f"strdefault:{feat_of_string(s)}", {f"m{u}.py": f"def f{u}(p: str = {s!r}) -> None:\n    ...\n"}))
        u = f"{next(uid):05d}"
        units.append((f"strdefault-untyped:{s!r}", f"strdefault:{feat_of_string(s)}", {f"m{u}.py": f"def f{u}(p={s!r}) -> None:\n    ...\n"}))
        u = f"{next(uid):05d}"
        units.append((f"literal:{s!r}", f"literal:{feat_of_string(s)}", {f"m{u}.py": f"from typing import Literal\n\n\ndef f{u}(p: Literal[{s!r}]) -> Literal[{s!r}, 1]:\n    ...\n"}))
    for num in NUM_DEFAULTS:
        u = f"{next(uid):05d}"
        units.append((f"numdefault:{num}", f"numdefault:{num}", {f"m{u}.py": f"def f{u}(p: float = {num}, q={num}) -> None:\n    ...\n"}))
    for lit in ["1", "-1", "True", "None", "1, -2", '"a", None']:
        u = f"{next(uid):05d}"
        units.append((f"literal-value:{lit}", f"literalvalue:{lit}", {f"m{u}.py": f"from typing import Literal\n\n\ndef f{u}(p: Literal[{lit}]) -> None:\n    ...\n"}))
    groups.append((units, Opts()))
    groups.append((units, Opts(convert=True)))

    # (c) documentation texts
    frag_keys = list(DOC_FRAGMENTS)
    combos = [(k,) for k in frag_keys]
    if tier == "thorough":
        combos += [(a, b) for a in frag_keys for b in frag_keys if a != b]
    for style in ("PLAINTEXT", "NUMPYDOC", "GOOGLE", "REST"):
        units = []
        for combo in combos:
            text = "\n\n".join(DOC_FRAGMENTS[k] for k in combo)
            for el in DOC_ELEMENTS:
                if style == "PLAINTEXT" and el.split("_")[0] in ("parameter", "result", "attribute", "ctor"):
                    continue
                u = f"{next(uid):05d}"
                units.append((f"doc:{style}:{el}:{'+'.join(combo)}", f"doc:{el}:" + ("has-comment-terminator" if "*/" in text else "+".join(combo)), {f"m{u}.py": render_doc(style, el, text, u)}))
        for i in range(0, len(units), 600):
            groups.append((units[i : i + 600], Opts(docstyle=style)))

    # (d) structure
    units = []
    u = f"{next(uid):05d}"
    units.append(("struct:only-enums", "struct:only-enums", {f"m{u}.py": f"from enum import Enum\n\n\nclass E{u}(Enum):\n    A = 1\n\n\nclass F{u}(Enum):\n    pass\n"}))
    u = f"{next(uid):05d}"
    units.append(("struct:empty-class", "struct:empty-class", {f"m{u}.py": f"class C{u}:\n    pass\n\n\nclass D{u}(C{u}):\n    pass\n"}))
    for k in (1, 2, 3):
        u = f"{next(uid):05d}"
        clss = ["OrderedDict", "Counter", "deque"][:k]
        units.append((f"struct:foreign-{k}", f"struct:foreign-{k}", {f"m{u}.py": "import collections\nimport pathlib\n\n\n" + f"def f{u}(" + ", ".join(f"a{i}: collections.{c}" for i, c in enumerate(clss)) + ", p: pathlib.Path | None = None) -> None:\n    ...\n"}))
    u = f"{next(uid):05d}"
    units.append(("struct:reexport", "struct:reexport", {f"r{u}/__init__.py": f"from ._impl{u} import Pub{u}, fun{u}\nfrom ._impl{u} import Other{u} as Alias{u}\n", f"r{u}/_impl{u}.py": f"class Pub{u}:\n    def f(self) -> 'Other{u}':\n        ...\n\n\nclass Other{u}:\n    ...\n\n\ndef fun{u}(a: Pub{u}) -> int:\n    ...\n"}))
    u = f"{next(uid):05d}"
    units.append(("struct:generic-bound", "struct:generic-bound", {f"m{u}.py": f'from typing import Generic, TypeVar\n\nT{u} = TypeVar("T{u}", bound=int)\nU{u} = TypeVar("U{u}", covariant=True)\n\n\nclass G{u}(Generic[T{u}, U{u}]):\n    def f(self, a: T{u}) -> U{u}:\n        ...\n'}))
    # type variables of another module that are referenced THROUGH the module (typing.AnyStr, tv.T): no dotted identifiers
    u = f"{next(uid):05d}"
    units.append(("struct:typevar-via-module", "struct:typevar-via-module", {f"tv{u}.py": f"from typing import TypeVar\n\nT{u} = TypeVar('T{u}')\n", f"m{u}.py": f"import typing\n\nfrom . import tv{u}\n\n\ndef f{u}(a: typing.IO[typing.AnyStr]) -> typing.AnyStr:\n    ...\n\n\ndef g{u}(a: tv{u}.T{u}) -> tv{u}.T{u}:\n    return a\n\n\nclass K{u}(typing.Generic[tv{u}.T{u}]):\n    def m(self, a: tv{u}.T{u}) -> tv{u}.T{u}:\n        return a\n"}))
    groups.append((units, Opts()))
    groups.append((units, Opts(convert=True)))
    # (e) default values that only the DOCSTRING mentions, written the Python way (numpydoc; parameter without type hint)
    units = []
    for tag, dflt in (("squote", "'auto'"), ("true", "True"), ("none", "None"), ("tuple", "(1, 2)")):
        u = f"{next(uid):05d}"
        units.append((f"docdefault:{tag}", f"docdefault:{tag}", {f"m{u}.py": f"def f{u}(a={dflt}) -> None:\n    \"\"\"Summary.\n\n    Parameters\n    ----------\n    a : str, default={dflt}\n        Description.\n    \"\"\"\n"}))
    groups.append((units, Opts(docstyle="NUMPYDOC")))
    groups.append((units, Opts(docstyle="NUMPYDOC", tsp="DOCSTRING")))

    rep.rule = (
        f"(a) 33 Safe-DS keyword table entries (verbatim where Python allows + 'kw_' which conversion turns into the keyword) and 13 identifier shapes in {len(POSITIONS)} positions x naming conversion off/on;"
        " (b) string defaults (typed/untyped) and Literal values over all strings of length <=%d over an 11-character alphabet of special characters, 13 number spellings;"
        " (c) %s of 15 documentation fragments on 11 element kinds (incl. docstrings that start directly with the parameter / result section) x 4 docstring styles; (d) structural letters; (e) 4 defaults written in a numpydoc docstring the Python way. One case per module; distinct = distinct (case label, options)"
        % (2 if tier == "thorough" else 1, "singles and ordered pairs" if tier == "thorough" else "singles")
    )
    stats: dict[str, int] = {}

    def build(units):
        files = {f"{PKG}/__init__.py": ""}
        for _, _, fs in units:
            for rel, text in fs.items():
                files[f"{PKG}/{rel}"] = text
        return files, PKG

    def on_group(units, opts: Opts, obs: Obs, files) -> None:
        if obs.outcome != "completed":
            for label, feat, fs in units:
                rep.case(f"{label}|{opts.key()}")
                if obs.outcome == "outside_domain":
                    rep.outside_domain += 1
                    continue
                # a run that does not complete emits no files to judge; reported here once the culprit unit is isolated
                if len(units) == 1:
                    rep.violation("run-completes", f"run:{obs.outcome}:{obs.crash_sig()}|{feat}", {"case": label, "exc": obs.exc_type + ": " + obs.exc_msg, "tb": obs.exc_tb[-500:]}, files={f"{PKG}/__init__.py": "", **{f"{PKG}/{k}": v for k, v in fs.items()}}, src_rel=PKG, opts=opts, obs=obs)
            return
        stubs = obs.stubs()
        # attribute each stub file to the unit whose unique suffix occurs in its path or text
        for label, feat, fs in units:
            rep.case(f"{label}|{opts.key()}", True, sample={"case": label, "options": opts.key(), "python": next(iter(fs.values()))[:200]} if hash(label) % 211 == 0 else None)
        tags = []
        for label, feat, fs in units:
            tag = next(iter(fs)).split("/")[0].split(".")[0][1:]
            tags.append((tag, label, feat, fs))
        for path, text in stubs.items():
            owner = None
            for tag, label, feat, fs in tags:
                if tag in path or tag in text:
                    owner = (label, feat, fs)
                    break
            try:
                parse_stub(text, path)
                rep.ok("parses")
            except SdsSyntaxError as e:
                label, feat, fs = owner if owner else ("?", "?", {})
                mini = {f"{PKG}/__init__.py": ""}
                mini.update({f"{PKG}/{rel}": t for rel, t in fs.items()})
                rep.violation(
                    e.clause,
                    # a doc text containing '*/' derails the parse at whatever follows: the trigger, not the error class, identifies it
                    ("syntax:" + feat if feat.endswith("has-comment-terminator") else f"{e.clause}:{feat}") if feat.startswith("doc:") else f"{e.clause}:{feat}:{'nc' if opts.convert else 'py'}",
                    {"case": label, "options": opts.key(), "file": path, "error": str(e), "stub": text[:500]}, files=mini, src_rel=PKG, opts=opts,
                )

    run_packed(groups, build, on_group, stats)
    rep.extra.update(stats)
    rep.assumptions = [
        "validity is judged by mc/sds_parser.py, a hand-written recogniser of the Safe-DS stub grammar that follows the grammar where it is more liberal than the generator",
        "'{{' inside a string literal is treated as opening a template expression (Safe-DS template strings), i.e. as not a plain closed literal",
    ]
