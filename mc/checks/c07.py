"""C07 - results mirror the return annotation, or soundly cover inferred returns (E1, DESIGN.md 6/C07)."""

from __future__ import annotations

import itertools

from ..driver import Obs, Opts
from ..explore import run_packed
from ..pkg import PKG, Case, index_stubs, pack
from ..report import Report
from .c05 import HEADER, SUPPORT, label as tlabel, norm, ref, show, src as tsrc

NULL = ("null",)

# ------------------------------------------------------------------------------------------- inferred-return alphabet
# typed return-value letters: source -> tuple of atom-sets the statement produces per position
INT, STR, BOOL, FLT = ("n", "Int", ()), ("n", "String", ()), ("n", "Boolean", ()), ("n", "Float", ())
BYTES, CPLX = ("n", "bytes", ()), ("n", "complex", ())
RV_TYPED = {
    "1": ((INT,),), '"s"': ((STR,),), "True": ((BOOL,),), "1.5": ((FLT,),), "None": ((NULL,),), "": ((NULL,),), "-1": ((INT,),),
    '1, "s"': ((INT,), (STR,)), '"s", 1': ((STR,), (INT,)), "1, 2, 3": ((INT,), (INT,), (INT,)), '1 if c else "s"': ((INT, STR),),
    # conditional expressions with one branch of no definite literal type (only the literal branch must be covered), on either side
    'xs[0] if c else "s"': ((STR,),), '"s" if c else xs[0]': ((STR,),), "c + 1 if c else 1.5": ((FLT,),), "[1] if c else None": ((NULL,),), "len(xs) if c else 1": ((INT,),),
    # the two other kinds of Python literals: bytes and imaginary numbers
    'b"x"': ((BYTES,),), "1j": ((CPLX,),),
    "(c == 1) if xs else (1, 1.5)": ((INT,), (FLT,)), '1 if c else ("s" if xs else 1.5)': ((INT, STR, FLT),), "not 1": ((BOOL,),), "1, len(xs)": ((INT,), ()),
}  # fmt: skip
RV_QUICK2 = ["1", '"s"', "True", "None", "", '1, "s"', '"s", 1', "1.5"]
# return values without a definite literal type: judged by "function is emitted" only (crashes belong to C01)
RV_UNTYPED = ["c", "self_like", "len", "LocalK", "len(xs)", "xs.count", "[1]", "{}", "c + 1", "xs[0]", "c == 1", "not c", "lambda: 1", 'f"{c}"']

CTX = ["top", "if", "else", "elif", "try", "except", "try_else", "finally", "for", "for_else", "while", "while_else", "with", "match", "nested_def", "after_raise"]
IGNORED_CTX = {"nested_def", "after_raise"}


def block(ctx: str, inner: list[str]) -> list[str]:
    """Wrap the statement lines `inner` into statement context `ctx`."""
    ind = ["    " + ln for ln in inner]
    P = ["    pass"]
    if ctx == "top":
        return inner
    if ctx == "if":
        return ["if c:", *ind]
    if ctx == "else":
        return ["if c:", *P, "else:", *ind]
    if ctx == "elif":
        return ["if c:", *P, "elif xs:", *ind]
    if ctx == "try":
        return ["try:", *ind, "except Exception:", *P]
    if ctx == "except":
        return ["try:", *P, "except Exception:", *ind]
    if ctx == "try_else":
        return ["try:", *P, "except Exception:", *P, "else:", *ind]
    if ctx == "finally":
        return ["try:", *P, "finally:", *ind]
    if ctx == "for":
        return ["for _i in xs:", *ind]
    if ctx == "for_else":
        return ["for _i in xs:", *P, "else:", *ind]
    if ctx == "while":
        return ["while c:", *ind]
    if ctx == "while_else":
        return ["while c:", *P, "else:", *ind]
    if ctx == "with":
        return ["with open('f') as _fh:", *ind]
    if ctx == "match":
        return ["match c:", "    case 1:", *["    " + ln for ln in ind], "    case _:", "        pass"]
    if ctx == "nested_def":
        return ["def _g():", *ind]
    if ctx == "after_raise":
        return ["raise ValueError", *inner]
    raise AssertionError(ctx)


def render_inferred(cid: int, stmts: list[tuple[tuple[str, ...], str]], method: bool = False) -> str:
    """stmts: [(context path outermost-first, return value source)].  'top'/'after_raise' statements are placed last."""
    ordered = sorted(stmts, key=lambda s: (s[0][0] in ("top", "after_raise"), s[0][0] == "after_raise"))
    body: list[str] = []
    for path, rv in ordered:
        lines = ["return " + rv if rv else "return"]
        for ctx in reversed(path):
            lines = block(ctx, lines)
        body += lines
    if not body:
        body = ["pass"]
    if any(rv == "LocalK" for _p, rv in stmts):
        # a class that is local to the function: no declaration exists that a type could refer to
        body = ["class LocalK:", "    pass", "", *body]
    if method:
        return f"class C{cid}:\n    def f{cid}(self_like, c, xs):\n" + "\n".join("        " + ln for ln in body) + "\n"
    return f"def f{cid}(c, xs, self_like=None):\n" + "\n".join("    " + ln for ln in body) + "\n"


def reachable(path) -> bool:
    return not any(c in IGNORED_CTX or c == "dead" for c in path)


SLOT_FORMS = ["none", "plain", "cond"]
SLOT_RV = {"body": "1", "except": '"s"', "else": "1.5", "finally": "True"}


def enumerate_shared(tier: str):
    """Return statements in several clauses of ONE compound statement.  Yield (body lines, stmts, label); an unreachable
    return (everything else when 'finally' returns unconditionally, 'else' after an unconditional return in the body)
    carries the path marker 'dead': it need not be covered (covering it is allowed)."""

    def slot(form: str, rv: str) -> list[str]:
        return {"none": ["pass"], "plain": [f"return {rv}"], "cond": ["if c:", f"    return {rv}"]}[form]

    ind = lambda ls: ["    " + ln for ln in ls]  # noqa: E731
    for fb, fx, fe, ff in itertools.product(SLOT_FORMS, repeat=4):
        forms = {"body": fb, "except": fx, "else": fe, "finally": ff}
        if sum(f != "none" for f in forms.values()) < 2:
            continue
        lines = ["try:", "    xs.append(c)", *ind(slot(fb, SLOT_RV["body"])), "except Exception:", *ind(slot(fx, SLOT_RV["except"]))]
        if fe != "none":
            lines += ["else:", *ind(slot(fe, SLOT_RV["else"]))]
        if ff != "none":
            lines += ["finally:", *ind(slot(ff, SLOT_RV["finally"]))]
        stmts = []
        for name, f in forms.items():
            if f == "none":
                continue
            dead = (ff == "plain" and name != "finally") or (name == "else" and fb == "plain")
            stmts.append(((f"try.{name}.{f}", *(("dead",) if dead else ())), SLOT_RV[name]))
        yield lines, stmts, "sh:try:" + ",".join(f"{k[0]}={v}" for k, v in forms.items())
    two = [("if", ["if c:", "    return 1", "else:", '    return "s"']), ("elif", ["if c:", "    return 1", "elif xs:", '    return "s"', "else:", "    return 1.5"]),
           ("for", ["for _i in xs:", "    return 1", "else:", '    return "s"']), ("while", ["while c:", "    return 1", "else:", '    return "s"']),
           ("match", ["match c:", "    case 1:", "        return 1", "    case 2:", '        return "s"', "    case _:", "        return 1.5"]),
           ("with-try", ["with open('f') as _fh:", "    try:", "        return 1", "    finally:", "        if c:", '            return "s"'])]
    for name, lines in two:
        rvs = [ln.strip()[7:] for ln in lines if ln.strip().startswith("return ")]
        yield lines, [((f"{name}.{i}",), rv) for i, rv in enumerate(rvs)], f"sh:{name}"


def render_shared(cid: int, lines: list[str], method: bool) -> str:
    if method:
        return f"class C{cid}:\n    def f{cid}(self_like, c, xs):\n" + "\n".join("        " + ln for ln in lines) + "\n"
    return f"def f{cid}(c, xs, self_like=None):\n" + "\n".join("    " + ln for ln in lines) + "\n"


def enumerate_inferred(tier: str):
    """Yield (stmts, label, risky)."""
    # one return statement, context depth <= 1 (quick) / <= 2 (thorough)
    paths1 = [(c,) for c in CTX]
    paths2 = [(a, b) for a in CTX for b in CTX if b != "top" and a not in ("top", "after_raise")]
    for path in paths1 + (paths2 if tier == "thorough" else [("if", "for"), ("for", "if"), ("try", "if"), ("with", "try_else"), ("else", "finally"), ("match", "while"), ("nested_def", "if"), ("if", "nested_def")]):
        for rv in RV_TYPED:
            yield [(path, rv)], f"1:{'/'.join(path)}:{rv or 'bare'}", False
    for path in (paths1 if tier == "thorough" else [("top",), ("if",)]):
        for rv in RV_UNTYPED:
            yield [(path, rv)], f"1u:{'/'.join(path)}:{rv}", True
    # two return statements at depth <= 1
    rvs = RV_QUICK2 if tier == "quick" else list(RV_TYPED)
    ctxs = CTX
    for (p1, p2) in itertools.combinations_with_replacement(ctxs, 2):
        if p1 == "top" and p2 == "top":
            continue
        for r1, r2 in itertools.product(rvs, repeat=2):
            if p1 == p2 and r1 > r2:
                continue
            yield [((p1,), r1), ((p2,), r2)], f"2:{p1}:{r1 or 'bare'}+{p2}:{r2 or 'bare'}", False
    if tier == "thorough":
        three = ["top", "if", "else"]
        typed8 = RV_QUICK2
        for ps in itertools.product(three, repeat=3):
            if list(ps).count("top") > 1:
                continue
            for rs in itertools.product(typed8, repeat=3):
                yield [((p,), r) for p, r in zip(ps, rs, strict=True)], "3:" + "+".join(f"{p}:{r or 'bare'}" for p, r in zip(ps, rs, strict=True)), False


# --------------------------------------------------------------------------------------------- annotated alphabet

ANN_LEAVES = [("int",), ("str",), ("None",), ("LC",), ("NT",), ("NTS",), ("TPS",), ("list", ("int",)), ("Optional", ("int",)), ("dict", ("str", ), ("int",)), ("Union", ("int",), ("str",)), ("Lit", "1"), ("Callable0", ("int",)), ("T",), ("Any",)]


def enumerate_annotated(tier: str):
    """Yield (kind, payload, label): return annotations crossed with result documentation (numpydoc)."""
    for t in ANN_LEAVES:
        yield [t], False, f"a:{tlabel(t)}"
    elems = ANN_LEAVES[:7] if tier == "quick" else ANN_LEAVES[:13]
    for n in (1, 2, 3):
        for combo in itertools.product(elems if n < 3 else elems[:4], repeat=n):
            yield list(combo), True, "a:tuple[" + ", ".join(tlabel(t) for t in combo) + "]"


def render_annotated(cid: int, elems, is_tuple: bool, doc: str | None, is_async: bool = False) -> str:
    ann = f"tuple[{', '.join(tsrc(t) for t in elems)}]" if is_tuple else tsrc(elems[0])
    generic = "p: T" if any("T" in tlabel(t).split("(")[0] or tlabel(t) == "T" for t in elems) else ""
    d = f'    """Summary.\n{doc}    """\n' if doc else ""
    return f"{'async ' if is_async else ''}def f{cid}({generic}) -> {ann}:\n{d}    ...\n"


def numpy_returns(names: list[str | None], types: list[str]) -> str:
    out = "\n    Returns\n    -------\n"
    for n, t in zip(names, types, strict=True):
        out += (f"    {n} : {t}\n" if n else f"    {t}\n") + "        Description.\n"
    return out


# -------------------------------------------------------------------------------------------------------- running


def covers(obs_type: frozenset | None, atoms) -> bool:
    return obs_type is not None and all(a in obs_type for a in atoms)


def run(rep: Report, tier: str, seed: int) -> None:
    cases: list[Case] = []
    cid = 0
    # ---- inferred part (plaintext)
    for stmts, label, risky in enumerate_inferred(tier):
        for method in ((False,) if tier == "quick" and not label.startswith("1") else (False, True)):
            cases.append(Case(cid, render_inferred(cid, stmts, method), ("inf", stmts, risky, method), (), label + (":m" if method else "")))
            cid += 1
    # the same bodies under other signatures: parameters with type hints (the type checker then builds a typed signature
    # whose return type is an implicit Any) and 'async def' (the return type is wrapped into a coroutine type)
    for stmts, label, risky in enumerate_inferred(tier):
        if not (label.startswith(("1:top:", "1:if:", "1u:top:")) or (tier == "thorough" and label.startswith("2:"))):
            continue
        for method in (False, True):
            for sig in ("typed", "async", "async_typed"):
                src = render_inferred(cid, stmts, method)
                if "typed" in sig:
                    src = src.replace("(c, xs, self_like=None):", "(c: int, xs: list, self_like=None):").replace("(self_like, c, xs):", "(self_like, c: int, xs: list):")
                if "async" in sig:
                    src = src.replace(f"def f{cid}(", f"async def f{cid}(")
                cases.append(Case(cid, src, ("inf", stmts, risky, method), (), f"{label}:sig={sig}" + (":m" if method else "")))
                cid += 1
    for lines, stmts, label in enumerate_shared(tier):
        for method in (False, True):
            cases.append(Case(cid, render_shared(cid, lines, method), ("inf", stmts, False, method), (), label + (":m" if method else "")))
            cid += 1
    n_inf = len(cases)
    # ---- annotated part (plaintext: names are result_i)
    ann_cases: list[Case] = []
    for elems, is_tuple, label in enumerate_annotated(tier):
        ann_cases.append(Case(cid, render_annotated(cid, elems, is_tuple, None), ("ann", elems, is_tuple, None), (), label))
        cid += 1
        # the same annotation on an 'async def': the declared type counts, not the coroutine wrapped around it
        if len(elems) <= 2:
            ann_cases.append(Case(cid, render_annotated(cid, elems, is_tuple, None, True), ("ann", elems, is_tuple, None), (), "async:" + label))
            cid += 1
    # ---- annotated + numpydoc result names
    doc_cases: list[Case] = []
    doc_types = {"int": "int", "str": "str"}
    for n in (1, 2, 3):
        elems = [("int",), ("str",), ("int",)][:n]
        for ndoc in (0, 1, 2, 3):
            for named in itertools.product((True, False), repeat=ndoc):
                names = [f"r{chr(97 + i)}" if nm else None for i, nm in enumerate(named)]
                types = [("int", "str", "int")[i] for i in range(ndoc)]
                doc = numpy_returns(names, types) if ndoc else ""
                for is_tuple in ((True, False) if n == 1 else (True,)):
                    doc_cases.append(Case(cid, render_annotated(cid, elems, is_tuple, doc or None), ("doc", elems, is_tuple, names), (), f"d:{n}{'t' if is_tuple else ''}:{''.join('N' if x else 'u' for x in names) or '-'}"))
                    cid += 1
    # '-> None' next to documented results: still no results
    for ndoc in (1, 2):
        for named in itertools.product((True, False), repeat=ndoc):
            names = [f"r{chr(97 + i)}" if nm else None for i, nm in enumerate(named)]
            doc = numpy_returns(names, ["int", "str"][:ndoc])
            doc_cases.append(Case(cid, render_annotated(cid, [("None",)], False, doc), ("doc", [("None",)], False, names), (), f"d:None:{''.join('N' if x else 'u' for x in names)}"))
            cid += 1
    # no annotation, no inferable return, results documented without names: the names are result_1, result_2, ...
    undoc_cases: list[Case] = []
    for ndoc in (1, 2):
        doc = numpy_returns([None] * ndoc, ["int", "str"][:ndoc])
        src = f'def f{cid}(xs):\n    """Summary.\n{doc}    """\n    return len(xs)\n'
        undoc_cases.append(Case(cid, src, ("undoc", ndoc), (), f"undoc:{ndoc}u"))
        cid += 1
    del doc_types
    # ---- inferred results next to documented results (numpydoc): coverage must not depend on the documentation
    infdoc_cases: list[Case] = []
    rv_small = ["1", '"s"', "True", "None", "1.5", '1, "s"']
    for r1, r2 in itertools.product(rv_small, repeat=2):
        for ndoc, named in ((1, True), (1, False), (2, True)):
            stmts = [(("if",), r1), (("top",), r2)]
            names = [f"r{chr(97 + i)}" if named else None for i in range(ndoc)]
            doc = numpy_returns(names, ["int", "str"][:ndoc])
            body = render_inferred(cid, stmts, False)
            head, rest = body.split("\n", 1)
            src = head + '\n    """Summary.\n' + doc + '    """\n' + rest
            infdoc_cases.append(Case(cid, src, ("inf", stmts, False, False), (), f"infdoc:{r1 or 'bare'}+{r2 or 'bare'}:{ndoc}{'N' if named else 'u'}"))
            cid += 1
    rep.rule = (
        "inferred: one return statement under every statement context (16 contexts, depth<=%s) x 22 typed (incl. bytes and imaginary literals, conditional expressions with one untypable branch on either side, nested conditionals, tuples with an untypable item) + 14 untyped return expressions (whatever is inferred for them must not be the name of a variable, parameter, function or function-local class); two return statements at depth<=1 over %d typed letters%s;"
        " return statements in 2..4 clauses of one try statement (each clause: none / return / conditional return; 72 shapes) and in the branches of one if / for-else / while-else / match;"
        " functions and methods; the one-statement cases again with type hints on the parameters, as 'async def', and both. annotated: 15 annotation terms alone and as tuple[...] of 1..3, also on 'async def'; numpydoc result sections with 0..3 entries, each named or unnamed, against 1..3 results."
        " distinct = distinct case label" % ("1 + 8 depth-2 paths" if tier == "quick" else "2 (complete)", len(RV_QUICK2) if tier == "quick" else len(RV_TYPED), "" if tier == "quick" else "; three return statements over top/if/else x 8 letters")
    )
    stats: dict[str, int] = {}

    def build(units):
        return pack(units, per_module=200, extra_files={f"{PKG}/support.py": SUPPORT}, header=lambda name: HEADER)

    def mini(c: Case):
        return {f"{PKG}/__init__.py": "", f"{PKG}/support.py": SUPPORT, f"{PKG}/m.py": (HEADER + c.src).replace("@MOD@", "m000000")}

    def on_group(units, opts, obs: Obs, files) -> None:
        if obs.outcome != "completed":
            for c in units:
                rep.case(c.label)
                if c.meta[0] == "inf" and c.meta[2]:
                    rep.extra["crashed_untyped_cases(C01)"] = rep.extra.get("crashed_untyped_cases(C01)", 0) + 1
                else:
                    rep.violation("run-completes", f"run:{obs.outcome}:{obs.crash_sig()}", {"case": c.label, "python": c.src, "exc": obs.exc_type + ": " + obs.exc_msg}, files=mini(c), src_rel=PKG, opts=opts, obs=obs)
            return
        idx = index_stubs(obs)
        for path, e in idx.errors.items():
            rep.violation("stub-parses", f"unparsable:{e.clause}", {"file": path, "error": str(e)}, files=files, src_rel=PKG, opts=opts, obs=obs)
        for c in units:
            rep.case(c.label, True, sample={"label": c.label, "python": c.src} if c.cid % 701 == 0 else None)
            hits = idx.find(f"f{c.cid}", "fun")
            kind = c.meta[0]

            def viol(clause, feat, detail, c=c) -> None:
                rep.violation(clause, f"{clause}:{feat}", {"case": c.label, "python": c.src, **detail}, files=mini(c), src_rel=PKG, opts=opts)

            if not hits:
                viol("function-emitted", kind, {})
                continue
            rep.ok("function-emitted")
            d = hits[0][2]
            results = d.results or []
            rtypes = [norm(r.type) for r in results]
            rshow = [f"{r.name}: {show(norm(r.type))}" for r in results]
            if kind == "undoc":
                # results exist only through the docstring: they are numbered like all unnamed results
                want_names = [f"result_{i + 1}" for i in range(len(results))]
                if [r.py_name for r in results] == want_names and len(results) == c.meta[1]:
                    rep.ok("names")
                else:
                    viol("names", f"documented-only:{c.meta[1]}", {"observed": rshow, "expected_names": [f"result_{i + 1}" for i in range(c.meta[1])]})
                continue
            if kind == "inf":
                _, stmts, risky, _ = c.meta
                if risky:
                    # no literal value to cover - but whatever is inferred has to be a TYPE: the name of a parameter or
                    # local variable of the function is none
                    def names_of(n):  # noqa: ANN001, ANN202
                        for a in n or ():
                            if a[0] == "n":
                                yield a[1]
                                for x in a[2]:
                                    yield from names_of(x)

                    used = {nm for rt in rtypes for nm in names_of(rt)} & {"c", "xs", "self_like", "len", "LocalK"}
                    if used:
                        viol("inferred-type-is-a-type", "variable-name:" + ",".join(sorted({rv for _p, rv in stmts})), {"observed": rshow, "variable_names_used_as_types": sorted(used)})
                    else:
                        rep.ok("inferred-type-is-a-type")
                    continue
                produced = [(path, rv, RV_TYPED[rv]) for path, rv in stmts if reachable(path)]
                # clause 6 applies when the function's own body has no return statement with a value at all (a return
                # after 'raise' is unreachable but still an inferable return: over-approximation is allowed)
                own = [(path, rv) for path, rv in stmts if "nested_def" not in path]
                with_value = [1 for path, rv in own if RV_TYPED[rv] != ((NULL,),)]
                if not with_value:
                    # neither annotation nor a return statement with a value (bare return / return None only)
                    if c.label.startswith("infdoc:"):
                        pass  # the docstring documents results: the only source of a type is used (C14), results are legitimate
                    elif results:
                        viol("no-inferable-return", "/".join(sorted({"/".join(p) + ":" + (rv or "bare") for p, rv in stmts})), {"observed": rshow})
                    else:
                        rep.ok("no-inferable-return")
                    continue
                bad = None
                for path, rv, per_pos in produced:
                    for i, atoms in enumerate(per_pos):
                        if not atoms:
                            continue  # a position whose value has no definite literal type
                        if i >= len(rtypes) or not covers(rtypes[i], atoms):
                            bad = (path, rv, i, atoms)
                            break
                    if bad:
                        break
                if bad:
                    path, rv, i, atoms = bad
                    others = sorted({(rv2 or "bare") for p2, rv2 in stmts if (p2, rv2) != (path, rv)})
                    viol("covers", f"{'/'.join(path)}:{rv or 'bare'}|with:{';'.join(others) or '-'}", {"return": f"{'/'.join(path)}: return {rv}", "position": i + 1, "needs": show(frozenset(atoms)), "observed": rshow})
                else:
                    rep.ok("covers")
                # names of inferred results without docstring
                if c.label.startswith("infdoc:"):
                    pass
                elif [r.name for r in results] == [f"result_{i + 1}" for i in range(len(results))]:
                    rep.ok("names")
                else:
                    viol("names", "inferred", {"observed": rshow})
            else:
                _, elems, is_tuple, names = c.meta
                imgs = [ref(t) for t in elems]
                if not is_tuple and elems[0] == ("None",):
                    want = []
                elif is_tuple and imgs == [frozenset([NULL])]:
                    want = None  # don't-care (sole None result)
                else:
                    want = imgs
                if want is not None:
                    if len(rtypes) != len(want):
                        viol("count", f"{kind}:{len(want)}->{len(rtypes)}:{'tuple' if is_tuple else 'single'}", {"expected": [show(w) for w in want], "observed": rshow})
                        continue
                    rep.ok("count")
                    if rtypes != want:
                        viol("types-in-order", c.label, {"expected": [show(w) for w in want], "observed": rshow})
                    else:
                        rep.ok("types-in-order")
                # names
                obs_names = [r.name for r in results]
                if len(set(obs_names)) != len(obs_names):
                    viol("names-unique", c.label, {"observed": rshow})
                    continue
                if kind == "ann" or not names:
                    exp_names = [f"result_{i + 1}" for i in range(len(results))]
                    if obs_names == exp_names:
                        rep.ok("names")
                    else:
                        viol("names", f"{kind}:nodoc", {"expected": exp_names, "observed": rshow})
                elif len(names) == len(results):
                    okn = True
                    for i, (dn, on) in enumerate(zip(names, obs_names, strict=True)):
                        if dn is not None:
                            okn &= on == dn
                        else:
                            okn &= on in {f"result_{k + 1}" for k in range(i + 1)}
                    if okn:
                        rep.ok("names")
                    else:
                        viol("names", f"doc:{c.label}", {"doc_names": names, "observed": rshow})
                else:
                    # counts differ: the statement does not say which name goes where; names must be doc names or result_i
                    allowed = {n for n in names if n} | {f"result_{k + 1}" for k in range(len(results))}
                    if set(obs_names) <= allowed:
                        rep.ok("names-plausible")
                    else:
                        viol("names", f"doc-unequal:{c.label}", {"doc_names": names, "observed": rshow})

    risky_cases = [c for c in cases if c.meta[2]]
    safe_cases = [c for c in cases if not c.meta[2]]
    per_group = 3000
    groups = [(safe_cases[i : i + per_group], Opts()) for i in range(0, len(safe_cases), per_group)]
    groups += [(risky_cases[i : i + 4], Opts()) for i in range(0, len(risky_cases), 4)]
    groups += [(ann_cases[i : i + per_group], Opts()) for i in range(0, len(ann_cases), per_group)]
    groups += [(ann_cases[i : i + per_group], Opts(docstyle="NUMPYDOC")) for i in range(0, len(ann_cases), per_group)]
    groups += [(doc_cases, Opts(docstyle="NUMPYDOC")), (undoc_cases, Opts(docstyle="NUMPYDOC"))]
    groups += [(infdoc_cases, Opts(docstyle="NUMPYDOC")), (infdoc_cases, Opts(docstyle="GOOGLE"))]
    run_packed(groups, build, on_group, stats)
    rep.extra.update(stats)
    rep.extra.update({"inferred_cases": n_inf, "annotated_cases": len(ann_cases), "doc_cases": len(doc_cases), "inferred_with_doc_cases": len(infdoc_cases)})
    rep.assumptions = [
        "coverage is one-directional: the stub type may contain more than the produced literal types",
        "return statements inside nested functions or after an unconditional raise are not required to be covered",
        "crashes on return expressions without definite literal type (names, calls, operators) are C01's, counted not reported here",
    ]
