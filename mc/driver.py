"""Hermetic driver for the real Safe-DS stub generator (DESIGN.md 4.3).

Seams:
  L0  run_cli(...)      fresh subprocess, sys.argv + safeds_stubgen.main.main()  (what the console script does)
  L1  run_inproc(...)   in-process _cli._run_stub_generator(...)                  (bulk runs inside pool workers)
Both return an Obs (picklable observation record).

Everything is imported from /repo/src (the working tree); nothing is cached between check invocations.
"""

from __future__ import annotations

import atexit
import contextlib
import io
import json
import logging
import os
import shutil
import subprocess
import sys
import tempfile
import time
import traceback
from dataclasses import dataclass, field
from pathlib import Path

# VERIF_REPO_SRC is a development aid (validating seeded changes in a scratch worktree); registered commands never set it
REPO_SRC = os.environ.get("VERIF_REPO_SRC", "/repo/src")
PY = "/venv/bin/python"
VERIF = Path(__file__).resolve().parent.parent

DOCSTYLES = ("PLAINTEXT", "NUMPYDOC", "GOOGLE", "REST")


@dataclass(frozen=True)
class Opts:
    docstyle: str = "PLAINTEXT"
    testrun: bool = False
    convert: bool = False
    tsp: str = "CODE"
    tsw: str = "WARN"

    def argv(self) -> list[str]:
        a = ["--docstyle", self.docstyle, "-tsp", self.tsp, "-tsw", self.tsw]
        if self.testrun:
            a.append("-tr")
        if self.convert:
            a.append("-nc")
        return a

    def key(self) -> str:
        return f"{self.docstyle}/{'tr' if self.testrun else '-'}/{'nc' if self.convert else '-'}/{self.tsp}/{self.tsw}"


ALL_OPTS = [
    Opts(d, tr, nc, tsp, tsw)
    for d in DOCSTYLES
    for tr in (False, True)
    for nc in (False, True)
    for tsp in ("CODE", "DOCSTRING")
    for tsw in ("WARN", "IGNORE")
]


@dataclass
class Obs:
    outcome: str  # completed | rejected | crash | timeout | outside_domain
    exc_type: str = ""
    exc_msg: str = ""
    exc_frame: str = ""  # innermost safeds_stubgen frame "file.py:function"
    exc_tb: str = ""
    logs: list[tuple[str, str]] = field(default_factory=list)  # (levelname, message)
    files: dict[str, str] = field(default_factory=dict)  # path relative to OUT -> text
    wall: float = 0.0
    stdout: str = ""

    def stubs(self) -> dict[str, str]:
        return {k: v for k, v in self.files.items() if k.endswith(".sdsstub")}

    def api(self) -> dict | None:
        for k, v in self.files.items():
            if k.endswith("__api.json") and "/" not in k:
                return json.loads(v)
        return None

    def crash_sig(self) -> str:
        return f"{self.exc_type}@{self.exc_frame}"


# ------------------------------------------------------------------------------------------------------- scratch

_SCRATCH: Path | None = None


def scratch_root() -> Path:
    """A per-process scratch root that no sys.path entry is an ancestor of and that has no test/tests/docs segment."""
    global _SCRATCH
    if _SCRATCH is None or not _SCRATCH.exists():
        base = "/dev/shm" if os.path.isdir("/dev/shm") and os.access("/dev/shm", os.W_OK) else None
        _SCRATCH = Path(tempfile.mkdtemp(prefix=f"verif-{os.getpid()}-", dir=base))
        atexit.register(shutil.rmtree, str(_SCRATCH), True)
    return _SCRATCH


_counter = 0


def fresh_dir(tag: str = "r") -> Path:
    global _counter
    _counter += 1
    d = scratch_root() / f"{tag}{_counter}"
    d.mkdir(parents=True)
    return d


def write_tree(root: Path, files: dict[str, str]) -> None:
    for rel, text in files.items():
        p = root / rel
        p.parent.mkdir(parents=True, exist_ok=True)
        p.write_text(text, encoding="utf-8")


def read_tree(root: Path) -> dict[str, str]:
    out: dict[str, str] = {}
    if not root.exists():
        return out
    for p in sorted(root.rglob("*")):
        if p.is_file():
            try:
                out[str(p.relative_to(root))] = p.read_text(encoding="utf-8")
            except UnicodeDecodeError:
                out[str(p.relative_to(root))] = "<binary>" + p.read_bytes().hex()
    return out


def child_env(extra: dict[str, str] | None = None, mypy_cache: bool = False) -> dict[str, str]:
    env = {k: v for k, v in os.environ.items() if k not in ("PYTHONPATH", "PYTHONHASHSEED")}
    env["PYTHONPATH"] = REPO_SRC
    env["PYTHONDONTWRITEBYTECODE"] = "1"
    if not mypy_cache:
        env["MYPY_CACHE_DIR"] = "/dev/null"
    if extra:
        env.update(extra)
    return env


# ----------------------------------------------------------------------------------------------- exception frames


def _innermost_tool_frame(tb) -> str:
    frame = ""
    for fs in traceback.extract_tb(tb):
        if "safeds_stubgen" in fs.filename.replace("\\", "/"):
            frame = f"{Path(fs.filename).name}:{fs.name}"
    return frame


# ------------------------------------------------------------------------------------------------------------ L1


class _Capture(logging.Handler):
    def __init__(self) -> None:
        super().__init__(level=logging.DEBUG)
        self.records: list[tuple[str, str]] = []

    def emit(self, record: logging.LogRecord) -> None:
        try:
            self.records.append((record.levelname, record.getMessage()))
        except Exception:  # noqa: BLE001
            self.records.append((record.levelname, str(record.msg)))


def _tool_imports():
    if REPO_SRC not in sys.path:
        sys.path.insert(0, REPO_SRC)
    os.environ.setdefault("MYPY_CACHE_DIR", "/dev/null")
    from safeds_stubgen.api_analyzer import TypeSourcePreference, TypeSourceWarning
    from safeds_stubgen.api_analyzer.cli._cli import _run_stub_generator
    from safeds_stubgen.docstring_parsing import DocstringStyle

    return _run_stub_generator, DocstringStyle, TypeSourcePreference, TypeSourceWarning


def run_inproc(src: Path, out: Path, opts: Opts, keep_out: bool = False) -> Obs:
    """Run the pipeline in this process through _cli._run_stub_generator (what cli() calls after argument parsing)."""
    run, DocstringStyle, TSP, TSW = _tool_imports()  # noqa: N806
    from mypy.errors import CompileError

    root = logging.getLogger()
    old_handlers, old_level = root.handlers[:], root.level
    cap = _Capture()
    root.handlers = [cap]
    root.setLevel(logging.WARNING)
    t0 = time.time()
    obs = Obs("completed")
    try:
        with contextlib.redirect_stdout(io.StringIO()) as so, contextlib.redirect_stderr(io.StringIO()):
            run(
                src_dir_path=Path(src).resolve(),
                out_dir_path=Path(out).resolve(),
                docstring_style=DocstringStyle.from_string(opts.docstyle),
                is_test_run=opts.testrun,
                convert_identifiers=opts.convert,
                type_source_preference=TSP.from_string(opts.tsp),
                type_source_warning=TSW.from_string(opts.tsw),
            )
        obs.stdout = so.getvalue()
    except CompileError as e:
        obs = Obs("outside_domain", "CompileError", "; ".join(e.messages[:3]))
    except ValueError as e:
        if str(e) == "No files found to analyse.":
            obs = Obs("rejected", "ValueError", str(e))
        else:
            obs = Obs("crash", type(e).__name__, str(e)[:300], _innermost_tool_frame(e.__traceback__), traceback.format_exc()[-3000:])
    except RecursionError as e:
        obs = Obs("crash", "RecursionError", "", _innermost_tool_frame(e.__traceback__), "")
    except Exception as e:  # noqa: BLE001
        obs = Obs("crash", type(e).__name__, str(e)[:300], _innermost_tool_frame(e.__traceback__), traceback.format_exc()[-3000:])
    finally:
        root.handlers = old_handlers
        root.setLevel(old_level)
    obs.wall = time.time() - t0
    obs.logs = cap.records
    obs.files = read_tree(Path(out))
    if not keep_out:
        shutil.rmtree(out, ignore_errors=True)
    return obs


RUN_LIMIT_S = int(os.environ.get("VERIF_RUN_LIMIT_S", "600"))


class _RunTimeout(BaseException):
    pass


def job_run_files(files: dict[str, str], src_rel: str, opts: Opts) -> Obs:
    """Pool job: write a source tree, run the pipeline on <tree>/<src_rel>, clean up.  A run that exceeds RUN_LIMIT_S is
    interrupted by SIGALRM (pool workers are single-threaded main threads) and reported with outcome 'timeout'."""
    import signal

    d = fresh_dir("j")

    def on_alarm(signum, frame):  # noqa: ARG001
        raise _RunTimeout

    old = signal.signal(signal.SIGALRM, on_alarm)
    signal.alarm(RUN_LIMIT_S)
    try:
        write_tree(d / "in", files)
        return run_inproc(d / "in" / src_rel, d / "out", opts)
    except _RunTimeout:
        return Obs("timeout", "Timeout", f"run exceeded {RUN_LIMIT_S}s", wall=float(RUN_LIMIT_S))
    finally:
        signal.alarm(0)
        signal.signal(signal.SIGALRM, old)
        shutil.rmtree(d, ignore_errors=True)


# ------------------------------------------------------------------------------------------------------------ L0

_CLI_SNIPPET = (
    "import sys, logging\n"
    "from safeds_stubgen.main import main\n"
    "sys.argv = ['safe-ds-stubgen'] + sys.argv[1:]\n"
    "main()\n"
)


def run_cli(
    src: str | Path,
    out: str | Path,
    opts: Opts,
    cwd: str | Path | None = None,
    env_extra: dict[str, str] | None = None,
    timeout: float = 180.0,
    mypy_cache: bool = False,
    out_abs_for_read: Path | None = None,
) -> Obs:
    """Run the console-script entry point in a fresh interpreter.  src/out are passed verbatim (any spelling)."""
    argv = [PY, "-c", _CLI_SNIPPET, "-s", str(src), "-o", str(out), *opts.argv()]
    t0 = time.time()
    try:
        p = subprocess.run(  # noqa: S603
            argv, cwd=str(cwd) if cwd else None, env=child_env(env_extra, mypy_cache), capture_output=True, text=True, timeout=timeout,
        )
    except subprocess.TimeoutExpired:
        return Obs("timeout", wall=time.time() - t0)
    wall = time.time() - t0
    out_read = out_abs_for_read or (Path(out) if Path(out).is_absolute() else Path(cwd or ".") / out)
    logs = []
    for ln in p.stderr.splitlines():
        for lvl in ("WARNING", "ERROR", "INFO"):
            if ln.startswith(lvl + ":"):
                logs.append((lvl, ln.split(":", 2)[-1]))
    if p.returncode == 0:
        obs = Obs("completed")
    else:
        err = p.stderr.strip().splitlines()
        last = err[-1] if err else ""
        exc_type, _, exc_msg = last.partition(": ")
        frame = ""
        for i, ln in enumerate(err):
            if ln.lstrip().startswith('File "') and "safeds_stubgen" in ln:
                fn = ln.split('File "')[1].split('"')[0]
                func = ln.rsplit(" in ", 1)[-1]
                frame = f"{Path(fn).name}:{func}"
        if exc_type == "ValueError" and exc_msg == "No files found to analyse.":
            obs = Obs("rejected", exc_type, exc_msg)
        elif "CompileError" in exc_type:
            obs = Obs("outside_domain", "CompileError", exc_msg)
        else:
            obs = Obs("crash", exc_type.split(".")[-1], exc_msg[:300], frame, p.stderr[-3000:])
    obs.wall = wall
    obs.logs = logs
    obs.stdout = p.stdout
    obs.files = read_tree(out_read)
    return obs


def confirm_fresh(files: dict[str, str], src_rel: str, opts: Opts) -> Obs:
    """Re-run an input in a fresh interpreter through the CLI entry point (used before any violation is reported)."""
    d = fresh_dir("c")
    try:
        write_tree(d / "in", files)
        return run_cli(d / "in" / src_rel, d / "out", opts, cwd=d)
    finally:
        shutil.rmtree(d, ignore_errors=True)
