#!/bin/bash
# Validate a seeded change independently and store it:  tools/validate_seed.sh <seed-id> <worktree-with-patch.diff-and-demo.py> <property> [check ...]
#  1. fresh scratch worktree of /repo HEAD outside /repo and /verif; demo must exit 0 there
#  2. apply patch; baseline tests must give the same pass count as HEAD (450); demo must exit 1
#  3. apply patch to /repo, run the given checks (quick), undo; record which raise VIOLATION
set -u
id=$1; src=$2; prop=$3; shift 3
out=/verif/seeded/$id; mkdir -p $out
wt=/tmp/validate-$id
git -C /repo worktree remove --force $wt >/dev/null 2>&1
git -C /repo worktree add -q --detach $wt HEAD || exit 2
cp $src/demo.py $wt/demo.py
cd $wt
PYTHONPATH=$wt/src /venv/bin/python demo.py > $out/demo_without.log 2>&1; d0=$?
if ! git apply $src/patch.diff; then echo "patch does not apply"; git -C /repo worktree remove --force $wt; exit 2; fi
PYTHONPATH=$wt/src /venv/bin/python demo.py > $out/demo_with.log 2>&1; d1=$?
PYTHONPATH=$wt/src /venv/bin/python -m pytest -q -p no:cacheprovider --timeout=900 --continue-on-collection-errors -x --deselect tests/safeds_stubgen/stubs_generator/test_generate_stubs.py > $out/tests_with.log 2>&1
tests=$(grep -E "passed|failed" $out/tests_with.log | tail -1)
cd /verif
git -C /repo worktree remove --force $wt
cp $src/patch.diff $out/patch.diff; cp $src/demo.py $out/demo.py
caught=""; missed=""
git -C /repo apply $out/patch.diff || { echo "cannot apply to /repo"; exit 2; }
for c in "$@"; do
  ./check $c --tier quick > $out/check_$c.log 2>&1; rc=$?
  if [ $rc -eq 1 ] && grep -q "^VIOLATION property=$c" $out/check_$c.log; then caught="$caught $c"; else missed="$missed $c(rc=$rc)"; fi
done
git -C /repo checkout -- .
echo "seed=$id property=$prop demo_without=$d0 demo_with=$d1 tests_with_patch='$tests' caught=[$caught ] not_caught=[$missed ]" | tee $out/result.txt
