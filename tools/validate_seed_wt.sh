#!/bin/bash
# Like validate_seed.sh, but never touches /repo's working tree: the checks run against the scratch worktree through the
# development overrides VERIF_REPO_SRC / VERIF_OUT_DIR.   tools/validate_seed_wt.sh <seed-id> <worktree-with-patch.diff-and-demo.py> <property> [check ...]
set -u
id=$1; src=$2; prop=$3; shift 3
out=/verif/seeded/$id; mkdir -p $out
wt=/tmp/validate-$id
git -C /repo worktree remove --force $wt >/dev/null 2>&1
git -C /repo worktree add -q --detach $wt ${SEED_BASE:-HEAD} || exit 2
cp $src/demo.py $wt/demo.py
cd $wt
PYTHONPATH=$wt/src /venv/bin/python demo.py > $out/demo_without.log 2>&1; d0=$?
if ! git apply $src/patch.diff; then echo "patch does not apply"; git -C /repo worktree remove --force $wt; exit 2; fi
PYTHONPATH=$wt/src /venv/bin/python demo.py > $out/demo_with.log 2>&1; d1=$?
PYTHONPATH=$wt/src /venv/bin/python -m pytest -q -p no:cacheprovider --timeout=900 --continue-on-collection-errors -x --deselect tests/safeds_stubgen/stubs_generator/test_generate_stubs.py > $out/tests_with.log 2>&1
tests=$(grep -E "passed|failed" $out/tests_with.log | tail -1)
cd /verif
cp $src/patch.diff $out/patch.diff; cp $src/demo.py $out/demo.py
caught=""; missed=""
for c in "$@"; do
  VERIF_REPO_SRC=$wt/src VERIF_OUT_DIR=/dev/shm/seedout-$id ./check $c --tier ${SEED_TIER:-quick} > $out/check_$c.log 2>&1; rc=$?
  if [ $rc -eq 1 ] && grep -q "^VIOLATION property=$c" $out/check_$c.log; then caught="$caught $c"; else missed="$missed $c(rc=$rc)"; fi
done
git -C /repo worktree remove --force $wt
rm -rf /dev/shm/seedout-$id
echo "seed=$id property=$prop demo_without=$d0 demo_with=$d1 tests_with_patch='$tests' caught=[$caught ] not_caught=[$missed ]" | tee $out/result.txt
