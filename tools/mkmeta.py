#!/venv/bin/python
"""Write seeded/<id>/meta.json from result.txt + a few words (development aid). usage: mkmeta.py <id> <prop> <wave> <change> <needs> <detection> [strengthening]"""
import json, re, sys, subprocess
sid, prop, wave, change, needs, detection = sys.argv[1:7]
strength = sys.argv[7] if len(sys.argv) > 7 else None
res = open(f"/verif/seeded/{sid}/result.txt").read().strip()
caught = re.search(r"caught=\[(.*?)\]", res).group(1).split()
head = subprocess.check_output(["git", "-C", "/repo", "rev-parse", "--short", "HEAD"], text=True).strip()
meta = {
    "seed": sid, "wave": int(wave), "breaks_property": prop,
    "author": "independent sub-agent (given only the property text, the earlier changes to avoid, and a scratch worktree of /repo)",
    "change": change, "needs_to_manifest": needs,
    "validated": {"how": f"tools/validate_seed_wt.sh: fresh scratch worktree of /repo at {head} under /tmp; demo.py without/with the patch; baseline suite with the patch (test_generate_stubs deselected as it does not collect here); checks run against the patched worktree via VERIF_REPO_SRC (/repo untouched); worktree removed",
                  "result_line": res},
    "detection": detection, "strengthening": strength, "caught_by": caught,
    "latest_repo_commit_the_patch_applies_to": head,
}
json.dump(meta, open(f"/verif/seeded/{sid}/meta.json", "w"), indent=1)
print(sid, caught)
