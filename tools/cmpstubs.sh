#!/bin/bash
# compare stubs+api json of tests/data between HEAD (worktree) and the working tree for all styles and both namings
cd /repo; git worktree add -q --detach /tmp/headwt HEAD
for t in head new; do src=/repo/src; [ $t = head ] && src=/tmp/headwt/src
 for pkg in various_modules_package docstring_parser_package main_package; do for st in NUMPYDOC GOOGLE REST PLAINTEXT; do for nc in "" "-nc"; do
  (cd /dev/shm && PYTHONHASHSEED=0 PYTHONPATH=$src MYPY_CACHE_DIR=/dev/null /venv/bin/python -m safeds_stubgen.main -s /repo/tests/data/$pkg -o /dev/shm/cmp_$t/$pkg$st$nc -tr --docstyle $st $nc > /dev/null 2>&1) &
 done; done; wait; done
done
diff -r /dev/shm/cmp_head /dev/shm/cmp_new | head -${1:-40}; echo "files: $(find /dev/shm/cmp_new -type f | wc -l)"
rm -rf /dev/shm/cmp_head /dev/shm/cmp_new; git worktree remove --force /tmp/headwt
