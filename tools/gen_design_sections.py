#!/venv/bin/python
"""Regenerate DESIGN.md sections 10.2 (repairs) and 10.3 (recorded findings) from known_findings.json."""
import json
import pathlib
import re

root = pathlib.Path(__file__).resolve().parent.parent
d = json.loads((root / "known_findings.json").read_text())
text = (root / "DESIGN.md").read_text()
h2 = re.search(r"^### 10\.2 .*$", text, re.M)
h3 = re.search(r"^### 10\.3 .*$", text, re.M)
h4 = re.search(r"^### 10\.4 .*$", text, re.M)
sec2 = h2.group(0) + "\n\n" + "\n".join("- `" + f.removeprefix("fixed: ") + "`" for f in d["fixed"]) + "\n\n"
sec3 = h3.group(0) + "\n\n" + "\n".join(f"- **{f['id']}** - {f['what']}" for f in sorted(d["findings"], key=lambda f: (f["property"], f["id"]))) + "\n\n"
text = text[: h2.start()] + sec2 + sec3 + text[h4.start():]
(root / "DESIGN.md").write_text(text)
print(len(d["fixed"]), "repairs,", len(d["findings"]), "findings")
