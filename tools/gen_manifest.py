#!/venv/bin/python
"""Regenerate /verif/MANIFEST.json from the table below and validate it against the schema."""
import json, pathlib, subprocess, sys

V = pathlib.Path("/verif")
E1 = "bounded-exhaustive input enumeration on the real pipeline against an independent reference model (explicit enumeration, no sampling)"
CHECKS = {
    # id: (technique, level text, level note, design ref)
    "C19": (
        "bounded-exhaustive enumeration of type terms and term pairs, laws evaluated on the real value classes",
        "All terms over 16 leaves x 9 composite constructors up to depth 1 (complete) and depth 2 (unary inner terms), and all ordered pairs within a constructor class, are built with the real constructors; round-trip, reflexivity, symmetry, eq=>hash and JSON-serialisability are evaluated on every one. Exhaustive within that bound, nothing sampled.",
        "Trusts Python's == / hash dispatch; terms deeper than the bound are not covered.",
        "6/C19",
    ),
}
CHECKS["C06"] = (
    E1,
    "Every Python-legal parameter-kind sequence up to length 3 (quick) / 5 (thorough) x default-presence patterns x annotation patterns x 9 owner kinds, and every default-value letter in every position, is rendered, analysed by the real pipeline and generator, and the parsed stub parameter list and the API JSON parameters are compared with the signature that was written. Exhaustive within the bound.",
    "Ground truth is the rendered source; trusts the independent stub recogniser (mc/sds_parser.py); signatures longer than the bound and default values outside the letter set are not covered.",
    "6/C06",
)
CHECKS["C05"] = (
    E1,
    "Every annotation term over 12 leaves + 8 Literal forms and 23 constructors up to depth 1 (complete) and depth 2 (slice in quick; complete for unary inner terms in thorough, 4.6e5 terms) is written into five positions (parameter, constructor parameter, result, class attribute, instance attribute), analysed by the real pipeline, and the parsed Safe-DS type (normalised: unions as sets, nullable forms unified) is compared with an independent reference translation of the statement's mapping; position independence is checked for all terms, listed or not.",
    "Reference translation is hand-written from the statement; don't-care: a result list consisting of a single None. Terms deeper than 2 are not covered.",
    "6/C05",
)
CHECKS["C07"] = (
    E1,
    "Inferred results: every statement context (16, nested to depth 1 quick / 2 thorough) x 11 typed return expressions, all pairs (quick) and top/if/else triples (thorough) of return statements are rendered into function and method bodies and analysed; each stub result position must cover every literal type a return statement of the function's own body produces there, and a function without any valued return must have no results. Annotated results: 12 annotation terms alone and in tuples of 1..3 (count, order, translated type), and numpydoc Returns sections with 0..3 named/unnamed entries against 1..3 results (names). Exhaustive within the bound.",
    "Coverage is one-directional (over-approximation allowed); returns in nested functions or after raise are not required; crashes on non-literal return expressions are counted under C01, not here.",
    "6/C07",
)
CHECKS["C02"] = (
    "bounded-exhaustive input enumeration on the real pipeline; every emitted stub parsed by an independent recogniser of the Safe-DS stub grammar",
    "Every entry of the 33-word keyword table (verbatim and as 'kw_') and 13 identifier shapes in 19 declaration/reference positions under both naming settings; string defaults and Literal values over all strings up to length 1 (quick) / 2 (thorough) over an 11-character special alphabet, 13 number spellings; 15 documentation fragments (singles; ordered pairs in thorough) on 8 element kinds x 4 docstring styles; structural letters. One case per module; every generated .sdsstub must be accepted by the recogniser. Exhaustive within the bound.",
    "Trusts mc/sds_parser.py as the definition of valid stub syntax (ASCII identifiers, 32 reserved words + '_', '{{' opens a template string). Names/strings/doc texts outside the alphabets are not covered.",
    "6/C02",
)
TREES = "Package trees: one module at depth 1 or 2 (module / sub-package public or private) x declaration-letter subsets (size<=2 quick, plus larger sets thorough) over public/private function, public class with 14 member kinds, private class, enum, private enum, exception class, declarations in __init__ x 10 re-export forms at every ancestor __init__ (quick: single re-exports, chains, equal pairs; thorough: all pairs). All names carry the tree id; ~120 trees are analysed per tool run; ground truth (what exists, what is public by the C04 rule, where it may appear) is computed from the spec in mc/tree.py."
CHECKS["C03"] = (
    E1,
    TREES + " Oracle: every ground-truth public declaration has exactly one stub declaration of the right kind with its Python name (or public alias), with the right enclosing-class chain, in a stub announcing its own module or a re-exporting package. 3.6e3 trees quick, 1.15e4 thorough; exhaustive within the bound.",
    "Publicity rule as read from the C04 statement; which legitimate location is chosen is not prescribed. Trees larger than the bound are not covered.",
    "6/C03",
)
CHECKS["C04"] = (
    E1,
    TREES + " Oracle: no ground-truth private declaration (by name, by owner, by module or package path, not publicly re-exported) has a stub declaration; no stub declaration carries a private Python name; is_public of every class/function/attribute entry of the API JSON equals the ground truth. Exhaustive within the bound.",
    "Publicity rule as read from the statement; re-exports by the __init__ of a private package are a don't-care zone (the statement's exception does not say whether they count).",
    "6/C04",
)
CHECKS["C12"] = (
    E1,
    "18 declaration letters with an explicit expected inventory (functions with all parameter kinds and default letters, tuple/None results, class with constructor, class/instance attributes assigned twice and by tuple, static/class methods, property, classes nested two deep, local/multiple/imported/aliased/dotted/foreign/generic superclasses, enums, enum in class, property with setter, overloads, async/decorated functions, private declarations), each alone and in all ordered pairs per module (9 letters quick, all 18 thorough): every id, owner list, flag, default and superclass list of the API JSON is compared with the expectation. Structural invariants (schemaVersion, sorted and duplicate-free lists, '<owner id>/<name>' id shape, reference resolution, exactly one owner) are evaluated on the complete API JSON of these runs and of all 3.6e3 C03 trees, whose modules and declarations must also all be present.",
    "Expected inventory is hand-written per letter; functions nested in functions and un-annotated overload implementations are don't-care.",
    "6/C12",
)
CHECKS["C10"] = (
    E1,
    TREES + " Each packed run is executed under naming conversion off/on with the harness recording every (target path, text) handed to create_stub_files and every file appearing in the scratch directory: all files lie in OUT, are .sdsstub or '<src>__api.json', directory path == announced module path segment by segment, base name == module (alias) or single declaration without leading underscores, no two different texts for one path, placeholder files do not overwrite module stubs. Plus 7 inputs constructed to collide and 8 console-script runs over source/output path spellings (absolute, relative, trailing slash, '..', pre-existing or nested new output directory, source given as parent directory).",
    "Write targets are observed by wrapping create_stub_files from the harness; unparsable stubs are C02's and skipped here.",
    "6/C10",
)
CHECKS["C15"] = (
    "bounded-exhaustive enumeration of package trees, each analysed by the real pipeline under both values of the flag (relational oracle over the run pair)",
    "11 directory names (test, tests, docs and 8 look-alikes incl. case variants) at depth 1 and 2 x 6 file names (m, test_m, tests, docs, test, conftest) x directory with/without __init__.py, plus two special directories nested and as siblings (6 pairs quick, all 121 ordered pairs thorough); every tree also holds an ordinary module. Each packed group is run with the flag off and on: excluded files contribute nothing (no function, module id or stub path) without the flag, every file contributes with it, look-alikes contribute under both, and the ordinary module's JSON entries and stub are identical under both.",
    "'located in a directory named test/tests/docs' is read as: some directory segment below the package root equals that name exactly.",
    "6/C15",
)
CHECKS["C11"] = (
    E1,
    "28 placements of a referenced class (same module, nested, sibling module/package, parent package, private module re-exported by name/alias/star and used through package or module path, not re-exported, private class, nested class of another module, enum, equal short names, 4 other-library forms, 6 unmapped builtins) x 12 reference positions (parameter, constructor parameter, result, class/instance attribute, superclass, list/dict/generic argument, union member, callable parameter), one reference per tree, plus ordered pairs of placements in one module (7 quick, all 28 thorough), under both naming settings. Oracle over the COMPLETE stub set of each run: every named type / superclass is a built-in target, a type parameter in scope, declared in the file or imported; every import names a package some stub announces and a top-level declaration of it; no file imports what it declares.",
    "Trusts the recogniser for names; packages/names are compared as written in the stubs.",
    "6/C11",
)
CHECKS["C09"] = (
    "bounded-exhaustive enumeration of identifiers through the real conversion function, and of (input, flag off) / (input, flag on) run pairs through the real pipeline with a relational oracle",
    "Function level: every legal identifier up to length 6 (quick, 1.6e4) / 7 (thorough, 8e4) over {a,b,A,1,_} as class and non-class name: identity under PYTHON, result is an identifier, no inner underscore, first-letter case, idempotence; dotted paths per segment. End to end: 38 identifier shapes x 18 declaration/reference positions, pairs of names converting to one spelling, and C03 trees (1/6 quick, all thorough), each generated with the flag off and on: no annotations when off, @PythonName/@PythonModule only when the name differs, same Python modules, and equal stubs after replacing every identifier by its recovered Python name (types, defaults, results, TODOs, members).",
    "Synthesised names (result_N, param_N) and documentation text are ignored; type references are mapped through the same run's declarations; import lines compared by count only.",
    "6/C09",
)
CHECKS["C20"] = (
    E1,
    "Every ordered sequence of length 1-2 over 29 module-level declaration letters (one per flagged feature and per flush point: functions with untyped parameter/result, tuple, set, multi-argument list/set, variadic, optional position-only, required keyword-only, unparsable default, several features; classes with multiple inheritance, constructor features, attributes, class methods, dirty last method, property, nested class, member inherited from a private base; enum) and length 3 over 12 (quick) / all 29 (thorough) letters; every member sequence of length <=2 (quick) / <=3 (thorough) over 13 member letters x 3 constructor variants x 2 base lists inside a class body. One module per sequence through the real pipeline; the set of '// TODO' lines attached to each parsed declaration must equal the expected marker set of its letter, and no marker may be left without a following declaration.",
    "Expected marker sets are hand-written per letter from the statement; 'internal class as type' / 'unknown type' markers are don't-care; non-literal defaults are kept out of the alphabet.",
    "6/C20",
)
CHECKS["C17"] = (
    E1,
    "All class hierarchies of <=3 (quick) / <=4 (thorough) classes - each public or private, ordered base lists of size <=2 over earlier classes, each class defining a subset of {m1,m2} with a return type unique to the definer - that have a consistent MRO and a public class with a private base; 4- and 5-class chains, forks, diamonds and ladders under all privacy assignments x 3 method placements; private bases carrying a private method / property / static method / class method / nested class; private bases moved to a second module. One hierarchy per module through the real pipeline; per public class: no member twice, every public method of a private-reachable ancestor present, own definition wins, nearest definer wins (where unique and MRO-consistent), no private class after 'sub', public direct bases listed in declaration order.",
    "Precedence between equally near definers or where BFS-nearest and MRO disagree is don't-care; inherited properties/nested classes are counted but not required.",
    "6/C17",
)
CHECKS["C14"] = (
    "bounded-exhaustive enumeration of signatures x docstring type situations, each analysed by the real pipeline under all four (preference, warning) option pairs; relational oracle across the four runs",
    "Per parameter and per result: hint in {absent,int,str,list[int]} x docstring type in {absent,int,str,list[int]}; one varied parameter (alone and next to a fixed one) for function / method / constructor, one varied result, two results (numpydoc); thorough adds the full product for two parameters x 5 result situations; x NumPy / Google / reST. Each packed group runs under CODE/DOCSTRING x WARN/IGNORE: hint wins under CODE, docstring type under DOCSTRING, the only source under either; all output files byte-identical between WARN and IGNORE; the number of discrepancy WARNING records naming the function equals the number of its parameters/results with two different types, and is 0 with IGNORE.",
    "Docstring defaults/optionality under DOCSTRING preference are don't-care; correspondence of documented results to tuple elements is only assumed when counts match.",
    "6/C14",
)
CHECKS["C13"] = (
    "explicit-state breadth-first search to a fixpoint over the states of the real docstring parser's one-entry cache (every query on every element in every reachable state, differential invariant, visitor trace replayed for conformance) + bounded-exhaustive enumeration of declaration orderings through the real pipeline",
    "Part A: for each structured style, BFS from the empty cache over (cached name, owner of cached docstring); events are all public parser queries on all elements of a package with colliding names; in every state every answer must equal the empty-cache answer and the cached docstring must belong to the cached name; the query sequence the real visitor issues on that package must lie inside the explored graph (33 states, 1155 transitions, 3 traces). Part B: unique tokens on module/class/constructor/function/method/parameter/result/attribute/example texts, permutations of 4 top-level declarations (9 quick, all 24 thorough) and of class members, 4 styles: every token in exactly one documentation comment, its element's, in the right block, multi-line texts in order. Part C: constructs common to the three structured styles give equal documentation.",
    "Cache state is read/restored through name-mangled attributes from the harness; docstring types are C14's; markup outside the token alphabet is not covered.",
    "6/C13",
)
CHECKS["C16"] = (
    "explicit-state breadth-first search over event histories on the real API object, StubsStringGenerator and output directory (every history replayed on a deepcopy of the pristine model, states hashed on a canonical form), plus repeated console-script runs",
    "Part A: events {generate module i, create re-export strings, generate_stub_data, create_stub_files, new generator}; all histories up to length 3 (quick) / 4 (thorough) on 3 inputs built around the aliasing the anchors name (literal|None parameters inherited by several subclasses, *args, aliased re-exports to shorter paths, foreign classes, generics, TODO-raising declarations) x naming conversion off/on. After every event the model's to_dict() equals the pristine one, every module generation and generate_stub_data returns what it returns on a pristine copy, D;F leaves the single-run directory, inherited methods render identically in every subclass. Part B: the console script twice into one directory with mypy's cache left in place, and into a directory already holding other packages' output.",
    "Generator scratch state is read from the harness; re-export strings (R) are exempt from history independence by design; duplicate identical entries in generate_stub_data's list are tolerated.",
    "6/C16",
)
CHECKS["C18"] = (
    "bounded-exhaustive enumeration of (package, mutated package) run pairs through the real pipeline with a metamorphic (byte-identity / permutation) oracle",
    "Base units: every 7th (quick) / 2nd (thorough) C03 tree and C11 user/target trees (11 placements quick, all 28 thorough). 8 unrelated additions per unit - a package with fresh names; with the unit's own declaration names; with the same module file name; re-exporting equally named declarations by name / alias / star; a package named like a declaration; a class named like the referenced class - each applied to all units of a packed package at once, so interference inside a unit and across units is observed: all stub files below the unit's root must be byte-identical to the base run. Reversing the top-level declarations of a tree module must leave header and imports identical and only permute the declaration texts.",
    "'Unrelated' is decided from the construction (not imported, defines nothing referenced - equal names are different declarations - and not re-exported on the module's path).",
    "6/C18",
)
CHECKS["C08"] = (
    "deviation-bounded exhaustive exploration of environment schedules on the real pipeline (iteration order of every tool-built set and listing order of package directories as recorded choice points; all schedules with <= d deviations from the default), plus real interpreter runs over hash seeds / path spellings / working directories / repetitions",
    "9 inputs constructed to contain ties (two equal-depth re-exporters, equal short class names, three TypeVars, inferred tuple results, a module star-imported by several packages, 3-member unions and literals, 4 TODO markers, foreign classes of several libraries, modules spread over directories). Every schedule with <= 1 deviation (thorough: <= 2 on four inputs, a second option set, every 9th doubly re-exporting C03 tree) is executed; every output file must be byte-identical to the default schedule's; the default schedule is replayed twice first. Completeness probe: 8 (quick) / 32 (thorough) real runs per input with different PYTHONHASHSEED must agree; 8 real runs over source/output spellings, working directories and repetition with mypy's cache must agree. Evidence lists schedules, choice points, distinct outputs and the sites whose deviation changed the output.",
    "Sets are owned by injecting an order-controlled subclass as the name 'set' into the tool's modules and wrapping os.scandir/os.listdir (no source hook); mypy's/griffe's internal orders are covered only by the hash-seed probe; orders offered for n>3 elements are rotations and reversal.",
    "6/C08",
)
CHECKS["C01"] = (
    "bounded-exhaustive enumeration of declaration / tree / docstring forms through the real pipeline under enumerated option sets, with bisection of failing packed runs to the culprit form; console-script runs for exit status and termination",
    "311 forms - one per dispatch arm or unguarded assumption in the anchored code: parameters and defaults of 36 expression classes (typed/untyped), un-annotated returns of 38 expression classes in functions and methods, 50 annotation constructs in parameter/result/class-attribute/instance-attribute position, PEP 695 forms, 30 class forms (generics, protocols, enums, NamedTuple, TypedDict, dataclasses, metaclass, nested, exceptions, private/unresolvable bases, class named like its module), 20 attribute forms, 22 function forms (overloads, property setters, decorators, conditional and duplicate definitions), 18 module/tree forms (star/relative/dotted imports, cycles, __main__, namespace directories, declarations in __init__, re-export mixes), 15 docstring forms per style incl. malformed sections. Each form alone in a module: packed under default options (failing runs bisected until the culprit is isolated and every other form is judged), under the 8 docstring-style x naming combinations, and the packed package under all 64 option combinations; thorough adds failing forms alone under all 64 and all ordered pairs of single-file forms inside one module; console-script runs incl. 5 degenerate inputs. Outcome must be 'completed' (API JSON written) or the documented rejection.",
    "The form alphabet is hand-written: forms not in it are not explored (weakest claim of the 20). Termination is decided up to 600 s per run; inputs mypy refuses with a blocking error are outside the domain.",
    "6/C01",
)
NOT_YET = {}  # id -> reason (filled for properties without a check)

props = [json.loads(l) for l in open(V / "properties.jsonl")]
checks = []
for p in props:
    pid = p["id"]
    if pid in CHECKS:
        tech, text, note, ref = CHECKS[pid]
        checks.append({
            "property_id": pid,
            "quick_cmd": f"./check {pid} --tier quick",
            "thorough_cmd": f"./check {pid} --tier thorough",
            "evidence_file": f"/verif/evidence/{pid}.json",
            "replay_cmd_template": f"./check {pid} --replay {{path}}",
            "engine": "mc",
            "level_claimed": {"category": "model_checking", "text": text + " The alphabets and some expectations grew during five seeding waves and two follow-up rounds (DESIGN.md 10.6), so the numbers above are lower bounds; the exact alphabet and bound of the current version is the 'rule' text in the evidence file, and DESIGN.md 10.4 tabulates it per property.", "design_ref": f"DESIGN.md {ref} and 10.4"},
            "level_note": note,
            "technique": tech,
        })
na = [{"property_id": p["id"], "reason": NOT_YET.get(p["id"], "check not built yet in this session (planned per DESIGN.md section 6); not claimed until it exists and is silent on the unchanged tree")} for p in props if p["id"] not in CHECKS]
m = {
    "version": 1,
    "setup_cmd": "./setup.sh",
    "hooks": {
        "guard": "SAFEDS_STUBGEN_VERIF",
        "enable": "no source hooks are needed: set-order control, directory-order control, log capture and cache inspection are done from the harness side (module namespace injection, os.scandir wrapper, name-mangled attribute access); the guard variable is not read by /repo",
        "baseline_off_cmd": "cd /repo && /venv/bin/python -m pytest -ra -q -p no:cacheprovider --timeout=900 --continue-on-collection-errors",
        "source_commits": [],
        "add_only": True,
    },
    "engines": [{"name": "mc", "path": "/verif/mc", "serves_properties": sorted(CHECKS), "kind_free_text": "hand-written explicit-state / bounded-exhaustive explorer driving the real implementation (E1 input enumeration, E2 BFS over object histories, E3 deviation-bounded environment schedules)"}],
    "checks": checks,
    "notes": "fix: commits in /repo are listed in known_findings.json (fixed[]). Checks import the tool from /repo/src (working tree) on every run.",
    "not_applicable": na,
}
(V / "MANIFEST.json").write_text(json.dumps(m, indent=1))
r = subprocess.run(["python3-vt", "-c", "import json,jsonschema;jsonschema.validate(json.load(open('/verif/MANIFEST.json')),json.load(open('/root/.vp/MANIFEST.schema.json')));print('MANIFEST valid,',len(json.load(open('/verif/MANIFEST.json'))['checks']),'checks')"])
sys.exit(r.returncode)
