#!/venv/bin/python
"""Triage aid: run a check in-process and print unknown violation signatures aggregated by head with marginals.

usage: PYTHONPATH=/verif:/repo/src /venv/bin/python tools/triage.py C03 [quick|thorough] [head-substring]
"""
import collections
import importlib
import json
import os
import sys

os.environ.setdefault("MYPY_CACHE_DIR", "/dev/null")
sys.path[:0] = ["/verif", "/repo/src"]

if __name__ == "__main__":
    from mc.explore import shutdown_pool
    from mc.report import Report

    prop = sys.argv[1].upper()
    tier = sys.argv[2] if len(sys.argv) > 2 else "quick"
    flt = sys.argv[3] if len(sys.argv) > 3 else ""
    rep = Report(prop, tier, 0)
    importlib.import_module(f"mc.checks.{prop.lower()}").run(rep, tier, 0)
    shutdown_pool()
    agg = collections.defaultdict(collections.Counter)
    ex = {}
    for sig, occs in rep.violations.items():
        parts = sig.split("|")
        agg[parts[0]][tuple(parts[1:])] += len(occs)
        ex.setdefault(parts[0], occs[0])
    for head in sorted(agg):
        if flt and flt not in head:
            continue
        ctx = agg[head]
        print(f"== {head}  total={sum(ctx.values())} contexts={len(ctx)}")
        n = max((len(k) for k in ctx), default=0)
        for i in range(n):
            m = collections.Counter()
            for k, v in ctx.items():
                m[k[i] if i < len(k) else "-"] += v
            print("    field", i, dict(sorted(m.items())))
        print("    e.g.", json.dumps(ex[head]["detail"], default=repr)[:700])
    print("known:", dict(rep.known_seen), "evaluations:", rep.evaluations)
    if os.environ.get("TRIAGE_CTX"):
        for head in sorted(agg):
            if os.environ["TRIAGE_CTX"] in head:
                print("## contexts of", head)
                for k, v in sorted(agg[head].items()):
                    print("   ", v, " | ".join(k))
