#!/venv/bin/python
"""List recorded findings that no evidence file reports as seen (development aid; run after a full sweep).

usage: tools/stale_findings.py [evidence-dir ...]     (default: /verif/evidence; add the output directory of a thorough pass)
A finding that only the thorough tier reaches is 'stale' for the quick evidence alone - pass both directories.
"""
import json
import sys
from pathlib import Path

dirs = [Path(a) for a in sys.argv[1:]] or [Path("/verif/evidence")]
seen: set[str] = set()
for d in dirs:
    for f in d.glob("C??.json"):
        seen |= set(json.load(open(f))["coverage"].get("known_findings_seen", {}))
ids = [f["id"] for f in json.load(open("/verif/known_findings.json"))["findings"]]
stale = [i for i in ids if i not in seen]
print(f"{len(ids)} findings recorded, {len(ids) - len(stale)} seen in {', '.join(map(str, dirs))}")
for i in stale:
    print("NOT SEEN:", i)
sys.exit(1 if stale else 0)
