#!/bin/bash
# tools/recheck_one.sh <seed-id> <check> : apply a stored seed to a scratch worktree and run one quick check against it (development aid)
id=$1; c=$2; wt=/tmp/rc-$id
git -C /repo worktree remove --force $wt >/dev/null 2>&1
git -C /repo worktree add -q --detach $wt HEAD || exit 2
git -C $wt apply /verif/seeded/$id/patch.diff || exit 2
cd /verif
VERIF_REPO_SRC=$wt/src VERIF_OUT_DIR=/dev/shm/rc-$id ./check $c --tier quick > seeded/$id/check_$c.log 2>&1; rc=$?
git -C /repo worktree remove --force $wt; rm -rf /dev/shm/rc-$id
echo "$id $c rc=$rc $(grep -c '^VIOLATION' seeded/$id/check_$c.log) violations"; grep "sig=" seeded/$id/check_$c.log | head -3 | cut -c1-220
