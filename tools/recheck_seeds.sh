#!/bin/bash
# Re-run, for every stored seed, the checks listed in its meta.json against a scratch worktree (latest commit the patch
# applies to + patch), without touching /repo.  usage: tools/recheck_seeds.sh [seed-id ...]      (development aid)
cd /verif
ids=${@:-$(ls seeded)}
for id in $ids; do
  meta=seeded/$id/meta.json
  base=$(/venv/bin/python -c "import json;print(json.load(open('$meta')).get('latest_repo_commit_the_patch_applies_to','HEAD'))")
  checks=$(/venv/bin/python -c "import json;print(' '.join(json.load(open('$meta'))['caught_by']))")
  wt=/tmp/recheck-$id
  git -C /repo worktree remove --force $wt >/dev/null 2>&1
  # prefer HEAD when the patch still applies there
  git -C /repo worktree add -q --detach $wt HEAD || exit 2
  forced=$(/venv/bin/python -c "import json;print(json.load(open('$meta')).get('validate_at_commit',''))")
  if [ -n "$forced" ]; then git -C $wt checkout -q --detach $forced; elif ! git -C $wt apply --check /verif/seeded/$id/patch.diff 2>/dev/null; then git -C $wt checkout -q --detach $base; fi
  git -C $wt apply /verif/seeded/$id/patch.diff || { echo "$id: patch does not apply"; git -C /repo worktree remove --force $wt; continue; }
  res=""
  for c in $checks; do
    VERIF_REPO_SRC=$wt/src VERIF_OUT_DIR=/dev/shm/recheck-$id ./check $c --tier quick > /dev/shm/recheck-$id-$c.log 2>&1; rc=$?
    if [ $rc -eq 1 ] && grep -q "^VIOLATION property=$c" /dev/shm/recheck-$id-$c.log; then res="$res $c:caught"; else res="$res $c:MISSED(rc=$rc)"; fi
    rm -f /dev/shm/recheck-$id-$c.log
  done
  git -C /repo worktree remove --force $wt; rm -rf /dev/shm/recheck-$id
  echo "$id base=$(git -C /repo rev-parse --short HEAD 2>/dev/null) $res"
done
