#!/bin/bash
# Nothing to compile: verify the toolchain the checks need (offline).
set -e
cd "$(dirname "$0")"
test -x /venv/bin/python
PYTHONPATH=/verif:/repo/src PYTHONDONTWRITEBYTECODE=1 /venv/bin/python -c "import safeds_stubgen, mypy.build, griffe, mc.sds_parser, mc.driver, mc.explore, mc.report; print('setup ok: safeds_stubgen from', safeds_stubgen.__file__)"
mkdir -p evidence replays
